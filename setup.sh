#!/bin/sh
# Build the simulator from files on disk only (offline). Exit non-zero only if the native build fails;
# a missing Miri is reported by the checks themselves (evidence: engine_miri.available=false).
set -u
cd "$(dirname "$0")/sim" || exit 2
export CARGO_NET_OFFLINE=true
unset MIRIFLAGS RUSTFLAGS
cargo build --release --offline || exit 2
cargo build --profile dbg --offline || exit 2
./target/release/sim oracle-check || exit 2
./target/release/sim seam-check || exit 2
# Engine S: shadow copy of /repo/bio-seq + shuttle build (best effort; the checks rebuild it anyway)
( cd .. && python3 tools/gen_shadow.py && cd sim-shuttle && cargo build --release --offline ) || echo "setup: shuttle engine build failed (Engine S will report unavailable)"
# warm the Miri sysroot and the Miri build of the simulator (best effort)
cargo +nightly miri setup >/dev/null 2>&1 || echo "setup: cargo miri setup failed (Engine M will report unavailable)"
MIRIFLAGS="-Zmiri-disable-stacked-borrows -Zmiri-ignore-leaks -Zmiri-permissive-provenance" \
  cargo +nightly miri run --offline --quiet -- oracle-check || echo "setup: Miri warm-up failed (Engine M will report unavailable)"
exit 0
