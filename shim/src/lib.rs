//! Drop-in replacements for the parts of `std` that bio-seq's source may name for sharing state
//! between threads, backed by shuttle so that a seeded scheduler decides every interleaving at
//! synchronisation-operation granularity. The simulator compiles a *textually transformed copy* of
//! /repo/bio-seq/src against this crate (`std::sync` -> `verif_shim::sync`, `std::thread` ->
//! `verif_shim::thread`, `std::hint` -> `verif_shim::hint`, `thread_local!` ->
//! `verif_shim::thread_local!`); /repo itself is never touched.
//!
//! Everything except `OnceLock` / `LazyLock` is shuttle's own implementation. Those two do not
//! exist in shuttle and are written here on top of `shuttle::sync::Once`; they follow std's
//! documented behaviour (no poisoning for `OnceLock::get_or_init`; a re-entrant initialisation
//! deadlocks, which shuttle reports).

pub use shuttle::thread_local;

pub mod thread {
    pub use shuttle::thread::*;
}

pub mod hint {
    pub use shuttle::hint::*;
}

pub mod sync {
    pub use shuttle::sync::*;

    use std::cell::{Cell, UnsafeCell};
    use std::ops::Deref;

    /// `std::sync::OnceLock` over `shuttle::sync::Once`.
    pub struct OnceLock<T> {
        once: shuttle::sync::Once,
        value: UnsafeCell<Option<T>>,
    }

    // Same bounds as std.
    unsafe impl<T: Sync + Send> Sync for OnceLock<T> {}
    unsafe impl<T: Send> Send for OnceLock<T> {}
    impl<T> std::panic::RefUnwindSafe for OnceLock<T> {}
    impl<T> std::panic::UnwindSafe for OnceLock<T> {}

    impl<T> Default for OnceLock<T> {
        fn default() -> Self {
            Self::new()
        }
    }

    impl<T: std::fmt::Debug> std::fmt::Debug for OnceLock<T> {
        fn fmt(&self, f: &mut std::fmt::Formatter<'_>) -> std::fmt::Result {
            f.debug_tuple("OnceLock").finish()
        }
    }

    impl<T> OnceLock<T> {
        #[must_use]
        pub const fn new() -> Self {
            OnceLock { once: shuttle::sync::Once::new(), value: UnsafeCell::new(None) }
        }

        /// A scheduling point, then the acquire-load of std's implementation.
        pub fn get(&self) -> Option<&T> {
            shuttle::thread::yield_now();
            if self.once.is_completed() {
                // Safety: written exactly once, inside call_once, which happens-before is_completed
                unsafe { (*self.value.get()).as_ref() }
            } else {
                None
            }
        }

        pub fn get_mut(&mut self) -> Option<&mut T> {
            self.value.get_mut().as_mut()
        }

        pub fn set(&self, value: T) -> Result<(), T> {
            let mut slot = Some(value);
            self.once.call_once_force(|_| {
                // Safety: call_once runs at most one initialiser, with all other callers blocked
                unsafe { *self.value.get() = slot.take() };
            });
            match slot {
                None => Ok(()),
                Some(v) => Err(v),
            }
        }

        pub fn get_or_init<F: FnOnce() -> T>(&self, f: F) -> &T {
            self.once.call_once_force(|_| {
                let v = f();
                unsafe { *self.value.get() = Some(v) };
            });
            unsafe { (*self.value.get()).as_ref().expect("verif-shim: OnceLock initialised") }
        }

        pub fn into_inner(self) -> Option<T> {
            self.value.into_inner()
        }

        pub fn take(&mut self) -> Option<T> {
            let v = self.value.get_mut().take();
            if v.is_some() {
                self.once = shuttle::sync::Once::new();
            }
            v
        }
    }

    /// `std::sync::LazyLock` over the `OnceLock` above.
    pub struct LazyLock<T, F = fn() -> T> {
        cell: OnceLock<T>,
        init: Cell<Option<F>>,
    }

    unsafe impl<T: Sync + Send, F: Send> Sync for LazyLock<T, F> {}
    impl<T, F> std::panic::RefUnwindSafe for LazyLock<T, F> {}

    impl<T, F: FnOnce() -> T> LazyLock<T, F> {
        pub const fn new(f: F) -> Self {
            LazyLock { cell: OnceLock::new(), init: Cell::new(Some(f)) }
        }

        pub fn force(this: &Self) -> &T {
            this.cell.get_or_init(|| match this.init.take() {
                Some(f) => f(),
                None => panic!("LazyLock instance has previously been poisoned"),
            })
        }
    }

    impl<T, F: FnOnce() -> T> Deref for LazyLock<T, F> {
        type Target = T;
        fn deref(&self) -> &T {
            LazyLock::force(self)
        }
    }

    impl<T: std::fmt::Debug, F> std::fmt::Debug for LazyLock<T, F> {
        fn fmt(&self, f: &mut std::fmt::Formatter<'_>) -> std::fmt::Result {
            f.debug_tuple("LazyLock").finish()
        }
    }
}
