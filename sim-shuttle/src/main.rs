#![recursion_limit = "512"]
#![allow(dead_code)]
//! Engine S: the concurrent scenarios of C14 and C15 executed under shuttle. The bio-seq this
//! binary links is a textually transformed copy of /repo/bio-seq (see tools/gen_shadow.py and
//! /verif/shim): every synchronisation operation of the code under test is a scheduling point
//! decided by shuttle's seeded random scheduler. One process = one execution = one cold start.
//!
//! Exit codes: 0 held, 1 violation (a `SIM-VIOLATION` line says which), 2 harness error.
#[path = "../../sim/src/c14.rs"]
mod c14;
#[path = "../../sim/src/c15.rs"]
mod c15;
#[path = "../../sim/src/entropy.rs"]
mod entropy;
#[path = "../../sim/src/noise.rs"]
mod noise;
#[path = "../../sim/src/oracle.rs"]
mod oracle;
#[path = "../../sim/src/prng.rs"]
mod prng;

mod rt {
    pub use shuttle::thread;
}

use std::panic::{catch_unwind, AssertUnwindSafe};
use std::sync::atomic::{AtomicI32, Ordering};
use std::sync::Arc;

use shuttle::scheduler::{PctScheduler, RandomScheduler};
use shuttle::{Config, MaxSteps, Runner};

fn arg(args: &[String], name: &str) -> Option<u64> {
    args.iter().position(|a| a == name).and_then(|i| args.get(i + 1)).and_then(|v| v.parse().ok())
}

const TAG_C14S: u64 = 0xC14C_0000_0000_0004;
const TAG_C15S: u64 = 0xC15C_0000_0000_0005;

fn tag_of(cmd: &str) -> u64 {
    if cmd == "c14-conc" {
        TAG_C14S
    } else {
        TAG_C15S
    }
}

/// `simsh batch <c14-conc|c15-conc> --verif-seed VS --from A --to B`: one child process per
/// execution (cold start each), summarised as one JSON line.
fn batch(args: &[String]) -> ! {
    let cmd = args.get(2).cloned().unwrap_or_default();
    let vs = arg(args, "--verif-seed").unwrap_or(0);
    let from = arg(args, "--from").unwrap_or(0);
    let to = arg(args, "--to").unwrap_or(0);
    let exe = std::env::current_exe().expect("harness: current_exe");
    let mut runs = 0u64;
    let mut ok = 0u64;
    let mut overlap = 0u64;
    let mut events = 0u64;
    let mut harness = Vec::new();
    let mut violating = Vec::new();
    let mut violating_count = 0u64;
    let mut sigs: std::collections::BTreeSet<u64> = Default::default();
    let mut overlap_sigs: std::collections::BTreeSet<u64> = Default::default();
    let mut digest_sum = 0u64;
    let mut sample: Option<Vec<String>> = None;
    for i in from..to {
        let out = std::process::Command::new(&exe)
            .args([cmd.as_str(), "--verif-seed", &vs.to_string(), "--index", &i.to_string()])
            .output()
            .expect("harness: spawn child");
        runs += 1;
        let text = String::from_utf8_lossy(&out.stdout).to_string();
        let code = out.status.code().unwrap_or(-1);
        let lines: Vec<String> = text.lines().map(str::to_string).collect();
        let viol: Vec<&String> = lines.iter().filter(|l| l.starts_with("SIM-VIOLATION")).collect();
        let mut sig_hash = None;
        let mut ov = false;
        for l in &lines {
            if let Some(sig) = l.strip_prefix("SIM-SIG ") {
                let mut d = prng::Digest::default();
                d.feed(sig.as_bytes());
                sig_hash = Some(d.0);
            } else if l.starts_with("SIM-OVERLAP") {
                ov = l.contains("any_ops_concurrent=true");
            } else if let Some(rest) = l.strip_prefix("SIM-END digest=") {
                if let Some(hex) = rest.split_whitespace().next() {
                    digest_sum = digest_sum.wrapping_add(u64::from_str_radix(hex, 16).unwrap_or(0));
                }
                if let Some(ev) = rest.split("events=").nth(1).and_then(|x| x.split_whitespace().next()) {
                    events += ev.parse::<u64>().unwrap_or(0);
                }
            }
        }
        if !viol.is_empty() {
            violating_count += 1;
            if violating.len() < 3 {
                violating.push(serde_json::json!({"index": i, "exit": code, "lines": lines}));
            }
        } else if code == 0 {
            ok += 1;
            if let Some(h) = sig_hash {
                sigs.insert(h);
                if ov {
                    overlap += 1;
                    overlap_sigs.insert(h);
                }
            }
            if sample.is_none() && ov {
                sample = Some(lines.clone());
            }
        } else if harness.len() < 3 {
            harness.push(serde_json::json!({"index": i, "exit": code,
                "stderr": String::from_utf8_lossy(&out.stderr).chars().take(400).collect::<String>()}));
        }
    }
    let out = serde_json::json!({
        "cmd": cmd, "from": from, "to": to, "runs": runs, "ok": ok, "violating_runs": violating_count,
        "violating": violating, "harness": harness, "runs_with_overlapping_ops": overlap, "operations": events,
        "sigs": sigs.iter().map(|h| format!("{h:016x}")).collect::<Vec<_>>(),
        "overlap_sigs": overlap_sigs.iter().map(|h| format!("{h:016x}")).collect::<Vec<_>>(),
        "digest_sum": format!("{digest_sum:016x}"), "sample": sample,
    });
    println!("{out}");
    std::process::exit(0);
}

fn main() {
    let args: Vec<String> = std::env::args().collect();
    let cmd = args.get(1).cloned().unwrap_or_default();
    if cmd == "batch" {
        batch(&args);
    }
    let seed = match (arg(&args, "--seed"), arg(&args, "--verif-seed"), arg(&args, "--index")) {
        (Some(s), _, _) => s,
        (None, Some(vs), Some(i)) => prng::run_seed(vs, tag_of(&cmd), i),
        _ => {
            eprintln!("HARNESS-ERROR usage: simsh <c14-conc|c15-conc> (--seed S | --verif-seed VS --index I) [--threads T] [--ops K] [--pct D]");
            std::process::exit(2);
        }
    };
    let threads = arg(&args, "--threads").map(|x| x as usize);
    let ops = arg(&args, "--ops").map(|x| x as usize);
    // swarm: two executions in three use the uniform random scheduler, the third PCT with a
    // priority-change depth of 1..3 (few, well-placed preemptions); `--pct D` forces PCT
    let pct = arg(&args, "--pct").map(|x| x as usize).or_else(|| {
        let r = prng::splitmix64(seed ^ 0x9c7);
        if r % 3 == 0 {
            Some(1 + (r >> 8) as usize % 3)
        } else {
            None
        }
    });
    c14::miri_scenario::MAX_THREADS.store(6, Ordering::Relaxed);
    // HashMap keys of every thread of this process come from the run seed
    entropy::set(prng::splitmix64(seed ^ 0x5e7));

    let mut config = Config::new();
    config.stack_size = 1 << 20;
    config.max_steps = MaxSteps::FailAfter(2_000_000);
    config.failure_persistence = shuttle::FailurePersistence::None;
    let code = Arc::new(AtomicI32::new(-1));
    let code2 = Arc::clone(&code);
    let which = cmd.clone();
    let body = move || {
        let c = match which.as_str() {
            "c14-conc" => c14::miri_scenario::main(seed, threads, ops),
            "c15-conc" => c15::conc::main(seed, threads, ops),
            _ => {
                eprintln!("HARNESS-ERROR unknown command");
                2
            }
        };
        code2.store(c, Ordering::SeqCst);
    };
    let result = catch_unwind(AssertUnwindSafe(|| match pct {
        Some(depth) => Runner::new(PctScheduler::new_from_seed(seed, depth.max(1), 1), config).run(body),
        None => Runner::new(RandomScheduler::new_from_seed(seed, 1), config).run(body),
    }));
    match result {
        Ok(_) => {
            let c = code.load(Ordering::SeqCst);
            std::process::exit(if c < 0 { 2 } else { c });
        }
        Err(p) => {
            let msg = if let Some(s) = p.downcast_ref::<&str>() {
                (*s).to_string()
            } else if let Some(s) = p.downcast_ref::<String>() {
                s.clone()
            } else {
                "non-string panic".to_string()
            };
            let first: String = msg.lines().next().unwrap_or("").chars().take(200).collect();
            let class = if msg.contains("deadlock") {
                "deadlock"
            } else if msg.contains("max_steps") || msg.contains("exceeded") {
                "hang"
            } else {
                "panic-outside-operation"
            };
            println!("SIM-VIOLATION class={class} op=- expected=every_call_returns got={}", first.replace(' ', "_"));
            println!("SIM-ABORTED");
            std::process::exit(1);
        }
    }
}
