//! C14, Engine N: native, operation-atomic simulation with one cold start per run.
//!
//! One process = one run: the two process-wide `OnceLock` tables of
//! `bio_seq::translation::standard` are cold when the process starts, and nothing but a fresh
//! process can make them cold again. The simulator owns T simulated clients; the PRNG decides which
//! client advances at every step; each operation runs to completion on the one real thread and is
//! compared with the oracle immediately.

use std::collections::BTreeMap;
use std::panic::{catch_unwind, AssertUnwindSafe};

use bio_seq::prelude::*;
use bio_seq::translation::{PartialTranslationTable, TranslationError, STANDARD};
use serde::{Deserialize, Serialize};

use crate::oracle::{self, ExpectAmino, AMINO_LETTERS, IUPAC_LETTERS};
use crate::prng::{Digest, Rng};

// ------------------------------------------------------------------------------------------------
// configuration (fully explicit: a replay file is exactly this)

#[derive(Serialize, Deserialize, Clone, Debug, PartialEq, Eq)]
#[serde(rename_all = "snake_case")]
pub enum PresKind {
    /// `Seq::try_from(text)`, passed as `&Seq` (offset 0)
    Parsed,
    /// `&carrier[off..off+n]`
    Window,
    /// `carrier[off..off+n].to_owned()` passed as `&Seq` (keeps the bit vector's head offset)
    Owned,
    /// `&carrier[a..][b..b+n]` with a+b = off (nested re-slicing, mixed range forms)
    Reslice,
    /// carrier assembled by `insert` / `append` / `prepend` / `remove` edits, then windowed
    Edited,
    /// carrier assembled by `push`ing symbols one at a time, then windowed
    Pushed,
    /// a window of the static `iupac!` literal holding a De Bruijn sequence (every codon once)
    Static,
    /// the carrier is the RESULT of another library operation: reverse of the reversed text
    /// (copying and in-place forms), complement of the complemented text, reverse-complement,
    /// `|` of two subset sequences, `&` of two superset sequences, `from_raw(into_raw())`,
    /// conversion from a `Seq<Dna>`, or the codon is the `Deref` view of a `Kmer<Iupac, n>`
    Derived,
}

#[derive(Serialize, Deserialize, Clone, Debug, PartialEq, Eq)]
pub struct Pres {
    pub kind: PresKind,
    /// symbol offset of the window inside its carrier
    pub off: usize,
    /// symbols after the window
    pub tail: usize,
    /// seed for the filler symbols and the edit variant
    pub fill: u64,
}

impl Pres {
    pub fn plain() -> Pres {
        Pres { kind: PresKind::Parsed, off: 0, tail: 0, fill: 0 }
    }
    pub fn describe(&self) -> String {
        format!("{:?}@{}+{}#{:x}", self.kind, self.off, self.tail, self.fill & 0xffff)
    }
}

#[derive(Serialize, Deserialize, Clone, Debug, PartialEq, Eq)]
#[serde(tag = "k", rename_all = "snake_case")]
pub enum Op {
    /// `STANDARD.try_to_amino(codon)` for a three-letter IUPAC codon
    Amino { codon: String, pres: Pres },
    /// `STANDARD.try_to_codon(amino)`; an `Ok` codon is fed back through `try_to_amino`
    Codon { amino: String },
    /// `STANDARD.try_to_amino(syms)` with a length other than three
    BadLen { syms: String, pres: Pres },
    /// something else the program does with the library on the same thread (see noise.rs);
    /// executed, logged, never judged
    Noise { kind: String, arg: u64 },
}

impl Op {
    pub fn key(&self) -> String {
        match self {
            Op::Amino { codon, .. } => format!("amino({codon})"),
            Op::Codon { amino } => format!("codon({amino})"),
            Op::BadLen { syms, .. } => format!("badlen({syms})"),
            Op::Noise { kind, arg } => format!("noise({kind},{arg:x})"),
        }
    }
    pub fn describe(&self) -> String {
        match self {
            Op::Amino { codon, pres } => format!("amino({codon}) {}", pres.describe()),
            Op::Codon { amino } => format!("codon({amino})"),
            Op::BadLen { syms, pres } => format!("badlen({syms}) {}", pres.describe()),
            Op::Noise { kind, arg } => format!("noise({kind},{arg:x})"),
        }
    }
}

#[derive(Serialize, Deserialize, Clone, Debug, PartialEq, Eq)]
pub struct Step {
    pub client: usize,
    pub op: Op,
    /// after this step the client's OS thread exits and is joined (thread-locals destroyed);
    /// the client's next step, if any, runs on a fresh thread. Only meaningful with exec=threads.
    #[serde(default, skip_serializing_if = "is_false")]
    pub retire: bool,
}

fn is_false(b: &bool) -> bool {
    !*b
}

fn default_exec() -> String {
    "main".to_string()
}

#[derive(Serialize, Deserialize, Clone, Debug, PartialEq, Eq)]
pub struct Config {
    pub run_seed: u64,
    pub clients: usize,
    pub mode: String,
    pub first_kind: String,
    /// "main": every operation runs on the process's main thread.
    /// "threads": every simulated client is a real OS thread, parked on a channel and released by
    /// the simulator for exactly one operation at a time (so the interleaving is still the
    /// simulator's choice and replays exactly); clients may retire and come back as new threads.
    #[serde(default = "default_exec")]
    pub exec: String,
    /// the linearised history: at step i the simulator advanced `client` by `op`
    pub steps: Vec<Step>,
}

// ------------------------------------------------------------------------------------------------
// generation from one seed

/// Wrong lengths: the small ones the property's quantifier lists, both sides of every power of two
/// up to 2^10 symbols, and 3 + 2^k symbols for k = 4..16 — the lengths whose symbol count or bit
/// count (4 bits per symbol) aliases a real codon's when a narrower integer type holds it
/// (3 + 64 symbols = 268 bits = 12 mod 256, 3 + 256 symbols = 3 mod 256, 3 + 16384 symbols =
/// 12 bits mod 2^16, 3 + 65536 symbols = 3 mod 2^16).
const BAD_LENGTHS: [usize; 41] = [
    0, 1, 2, 4, 5, 6, 7, 8, 9, 15, 16, 17, 19, 31, 32, 33, 35, 63, 64, 65, 67, 127, 128, 129, 131, 255, 256, 257, 259,
    511, 512, 515, 1023, 1024, 1027, 2051, 4099, 8195, 16387, 32771, 65539,
];

fn gen_pres(rng: &mut Rng, n: usize) -> Pres {
    let kind = match rng.below(16) {
        0 => PresKind::Parsed,
        1..=5 => PresKind::Window,
        6..=8 => PresKind::Owned,
        9..=10 => PresKind::Reslice,
        11..=12 => PresKind::Edited,
        13 => PresKind::Pushed,
        14 => PresKind::Derived,
        _ => {
            if n == 3 {
                PresKind::Static
            } else {
                PresKind::Window
            }
        }
    };
    // offsets: all 16 residues mod 16 (4-bit symbols, 16 per word); biased towards the
    // word-straddling residues 14 and 15 and towards second/third words
    let residue = match rng.below(8) {
        0 => 14,
        1 => 15,
        2 => 13,
        _ => rng.below(16),
    };
    let words = rng.below(3);
    let mut off = if kind == PresKind::Parsed { 0 } else { words * 16 + residue };
    // rarely: a window far into a long carrier (offsets around 2^8, 2^12 and 2^16 symbols)
    if kind != PresKind::Parsed && kind != PresKind::Static && kind != PresKind::Derived && rng.chance(1, 600) {
        off = *rng.pick(&[255usize, 256, 257, 1023, 4095, 4096, 4097, 16383, 65535, 65536, 65537]) + rng.below(3) * 16;
    }
    let tail = if kind == PresKind::Parsed { 0 } else { rng.below(20) };
    Pres { kind, off, tail, fill: rng.next_u64() }
}

fn letters(rng: &mut Rng, n: usize, gap_ok: bool) -> String {
    (0..n)
        .map(|_| {
            let m = if gap_ok { 16 } else { 15 };
            IUPAC_LETTERS[rng.below(m)] as char
        })
        .collect()
}

pub fn generate(run_seed: u64) -> Config {
    let mut rng = Rng::new(run_seed);
    let clients = rng.range(1, 4);
    let mode = match rng.below(40) {
        0 => "marathon",
        1..=26 => "sweep",
        _ => "sample",
    };
    let exec = if rng.chance(1, 2) { "threads" } else { "main" };
    let first_kind = *rng.pick(&["amino", "codon", "badlen", "any"]);

    let mut ops: Vec<Op> = Vec::new();
    if mode == "sweep" || mode == "marathon" {
        // marathon: the complete domain sixteen times over in one process (> 2^16 calls), for
        // state that only goes wrong after many calls (counters, bounded caches)
        let rounds = if mode == "marathon" { 16 } else { 1 };
        for _ in 0..rounds {
            for a in IUPAC_LETTERS {
                for b in IUPAC_LETTERS {
                    for c in IUPAC_LETTERS {
                        let codon = String::from_utf8(vec![*a, *b, *c]).unwrap();
                        let pres = gen_pres(&mut rng, 3);
                        ops.push(Op::Amino { codon, pres });
                    }
                }
            }
        }
        // a few hundred repeats under other presentations: history-level stability
        for _ in 0..256 {
            let codon = letters(&mut rng, 3, true);
            let pres = gen_pres(&mut rng, 3);
            ops.push(Op::Amino { codon, pres });
        }
    } else {
        // fewer codons, each under one presentation per offset residue
        for _ in 0..96 {
            let gap_ok = rng.chance(1, 7);
            let codon = if rng.chance(1, 2) { miri_scenario::exact_codon(&mut rng) } else { letters(&mut rng, 3, gap_ok) };
            for residue in 0..16 {
                let mut pres = gen_pres(&mut rng, 3);
                if pres.kind != PresKind::Parsed && pres.kind != PresKind::Static {
                    pres.off = (pres.off / 16) * 16 + residue;
                }
                ops.push(Op::Amino { codon: codon.clone(), pres });
            }
        }
    }
    for rep in 0..3 {
        for a in AMINO_LETTERS {
            let _ = rep;
            ops.push(Op::Codon { amino: (*a as char).to_string() });
        }
    }
    for n in BAD_LENGTHS {
        // the long ones once per run and not in every run (they cost a carrier of that length)
        let reps = if n <= 7 { 4 } else if n <= 300 { 2 } else { usize::from(rng.chance(1, 3)) };
        for _ in 0..reps {
            let syms = letters(&mut rng, n, true);
            let mut pres = gen_pres(&mut rng, n);
            if n > 300 {
                pres.off %= 64;
            }
            ops.push(Op::BadLen { syms, pres });
        }
    }
    // a few arbitrary lengths, and a few congruent to 3 modulo 64 (bit length = 12 mod 256)
    for _ in 0..6 {
        let n = match rng.below(3) {
            0 => 3 + 64 * rng.range(1, 12),
            _ => {
                let n = rng.range(4, 400);
                if n == 3 {
                    4
                } else {
                    n
                }
            }
        };
        let syms = letters(&mut rng, n, true);
        let pres = gen_pres(&mut rng, n);
        ops.push(Op::BadLen { syms, pres });
    }
    // prefixes / extensions of real table rows: the closest wrong-length inputs
    for row in ["GC", "GCNA", "TR", "TRAA", "AT", "ATGG", "N", "NNNN", "TG", "TGGN"] {
        let pres = gen_pres(&mut rng, row.len());
        ops.push(Op::BadLen { syms: row.to_string(), pres });
    }

    // bursts: short sequences of *related* operations kept adjacent in the linearised history, so
    // that hidden state carried from one call to the next (a memoised last answer, a cache keyed
    // by almost-the-codon) meets the inputs most likely to collide: the same bits at another
    // length, one symbol widened or narrowed, the same codon under another presentation, the
    // reverse lookup of the answer
    let n_noise = ops.len() / 24;
    for _ in 0..n_noise {
        ops.push(Op::Noise { kind: (*rng.pick(crate::noise::KINDS)).to_string(), arg: rng.next_u64() });
    }
    let mut blocks: Vec<Vec<Op>> = ops.into_iter().map(|o| vec![o]).collect();
    let n_bursts = if mode == "sample" { 96 } else { 192 };
    for _ in 0..n_bursts {
        let base = if rng.chance(1, 2) {
            miri_scenario::exact_codon(&mut rng)
        } else {
            letters(&mut rng, 3, false)
        };
        let mut burst = vec![Op::Amino { codon: base.clone(), pres: gen_pres(&mut rng, 3) }];
        for _ in 0..rng.range(1, 3) {
            let b = base.as_bytes();
            let related = match rng.below(9) {
                7 | 8 => Op::Noise { kind: (*rng.pick(crate::noise::KINDS)).to_string(), arg: rng.next_u64() },
                0 => {
                    // same leading bits, one more symbol (gap = all-zero bits)
                    let ext = format!("{base}{}", if rng.chance(2, 3) { '-' } else { IUPAC_LETTERS[rng.below(16)] as char });
                    Op::BadLen { pres: gen_pres(&mut rng, 4), syms: ext }
                }
                1 => Op::BadLen { pres: gen_pres(&mut rng, 2), syms: base[..2].to_string() },
                2 => {
                    let ext = format!("-{base}");
                    Op::BadLen { pres: gen_pres(&mut rng, 4), syms: ext }
                }
                3 => {
                    // one position widened to a superset or narrowed to a subset
                    let i = rng.below(3);
                    let cur = oracle::base_set(b[i]);
                    let other: Vec<u8> = IUPAC_LETTERS[..15]
                        .iter()
                        .copied()
                        .filter(|l| {
                            let s = oracle::base_set(*l);
                            s != cur && (s & cur == cur || s & cur == s)
                        })
                        .collect();
                    let mut m = b.to_vec();
                    if !other.is_empty() {
                        m[i] = *rng.pick(&other);
                    }
                    Op::Amino { codon: String::from_utf8(m).unwrap(), pres: gen_pres(&mut rng, 3) }
                }
                4 => Op::Amino { codon: base.clone(), pres: gen_pres(&mut rng, 3) },
                5 => {
                    let a = match oracle::expect_amino(&[b[0], b[1], b[2]]) {
                        ExpectAmino::Exactly(x) => x,
                        _ => *rng.pick(AMINO_LETTERS),
                    };
                    Op::Codon { amino: (a as char).to_string() }
                }
                _ => {
                    // a rotation / reversal of the same three symbols
                    let m = if rng.chance(1, 2) { vec![b[2], b[1], b[0]] } else { vec![b[1], b[2], b[0]] };
                    Op::Amino { codon: String::from_utf8(m).unwrap(), pres: gen_pres(&mut rng, 3) }
                }
            };
            burst.push(related);
        }
        if rng.chance(1, 2) {
            burst.push(Op::Amino { codon: base.clone(), pres: gen_pres(&mut rng, 3) });
        }
        blocks.push(burst);
    }
    rng.shuffle(&mut blocks);
    let mut ops: Vec<Op> = blocks.into_iter().flatten().collect();

    // force the kind of the very first operation (which initialisation path runs cold)
    let want = |op: &Op| match (first_kind, op) {
        ("amino", Op::Amino { .. }) | ("codon", Op::Codon { .. }) | ("badlen", Op::BadLen { .. }) => true,
        ("any", _) => true,
        _ => false,
    };
    if let Some(i) = ops.iter().position(want) {
        ops.swap(0, i);
    }
    // after a badlen-first start, half the time make the second op a codon lookup
    // (nested initialisation with both tables still cold), otherwise leave it to the shuffle
    if first_kind == "badlen" && rng.chance(1, 2) {
        if let Some(i) = ops.iter().skip(1).position(|o| matches!(o, Op::Codon { .. })) {
            ops.swap(1, i + 1);
        }
    }

    // deal to clients; the schedule is the sequence of client picks
    let steps = ops
        .into_iter()
        .map(|op| Step { client: rng.below(clients), op, retire: exec == "threads" && rng.chance(1, 150) })
        .collect();

    Config {
        run_seed,
        clients,
        mode: mode.to_string(),
        first_kind: first_kind.to_string(),
        exec: exec.to_string(),
        steps,
    }
}

// ------------------------------------------------------------------------------------------------
// presentations

include!("debruijn.rs");

fn sym(c: u8) -> Iupac {
    Iupac::try_from_ascii(c).unwrap_or_else(|| panic!("harness: not an IUPAC letter {c}"))
}

fn filler(rng: &mut Rng, n: usize) -> Vec<Iupac> {
    (0..n).map(|_| sym(IUPAC_LETTERS[rng.below(16)])).collect()
}

/// Build the presentation and hand the resulting slice to `f`.
/// Everything here uses bio-seq's public API only.
pub fn present<R>(text: &str, pres: &Pres, f: impl FnOnce(&SeqSlice<Iupac>) -> R) -> R {
    let n = text.len();
    let syms: Vec<Iupac> = text.bytes().map(sym).collect();
    let mut rng = Rng::new(pres.fill);
    let off = pres.off;
    match pres.kind {
        PresKind::Parsed => {
            let s: Seq<Iupac> = Seq::try_from(text).expect("harness: parse");
            f(&s)
        }
        PresKind::Window | PresKind::Owned | PresKind::Reslice => {
            let mut all = filler(&mut rng, off);
            all.extend_from_slice(&syms);
            all.extend(filler(&mut rng, pres.tail));
            let carrier: Seq<Iupac> = all.into_iter().collect();
            match pres.kind {
                PresKind::Window => f(&carrier[off..off + n]),
                PresKind::Owned => {
                    let o: Seq<Iupac> = carrier[off..off + n].to_owned();
                    f(&o)
                }
                _ => {
                    let a = rng.below(off + 1);
                    let b = off - a;
                    match rng.below(3) {
                        0 => f(&carrier[a..][b..b + n]),
                        1 => f(&carrier[..off + n][a..][b..]),
                        _ => {
                            if n == 0 {
                                f(&carrier[a..][b..b])
                            } else {
                                f(&carrier[a..][b..=b + n - 1])
                            }
                        }
                    }
                }
            }
        }
        PresKind::Edited => {
            let pre: Seq<Iupac> = filler(&mut rng, off).into_iter().collect();
            let post: Seq<Iupac> = filler(&mut rng, pres.tail).into_iter().collect();
            let mid: Seq<Iupac> = syms.iter().copied().collect();
            let carrier = match rng.below(4) {
                0 => {
                    let mut c = pre.clone();
                    c.append(&post);
                    c.insert(off, &mid);
                    c
                }
                1 => {
                    let mut c = mid.clone();
                    c.prepend(&pre);
                    c.append(&post);
                    c
                }
                2 => {
                    // junk in the middle, then removed
                    let junk: Seq<Iupac> = filler(&mut rng, 1 + (pres.fill as usize % 7)).into_iter().collect();
                    let mut c = pre.clone();
                    c.append(&junk);
                    c.append(&mid);
                    c.append(&post);
                    c.remove(off..off + junk.len());
                    c
                }
                _ => {
                    // longer, then truncated
                    let mut c = pre.clone();
                    c.append(&mid);
                    c.append(&post);
                    let extra: Seq<Iupac> = filler(&mut rng, 5).into_iter().collect();
                    c.append(&extra);
                    c.truncate(off + n + pres.tail);
                    c
                }
            };
            f(&carrier[off..off + n])
        }
        PresKind::Pushed => {
            let mut c: Seq<Iupac> = if rng.chance(1, 2) { Seq::new() } else { Seq::with_capacity(off + n) };
            for s in filler(&mut rng, off) {
                c.push(s);
            }
            for s in &syms {
                c.push(*s);
            }
            c.extend(filler(&mut rng, pres.tail));
            f(&c[off..off + n])
        }
        PresKind::Derived => {
            let mut all = filler(&mut rng, off);
            all.extend_from_slice(&syms);
            all.extend(filler(&mut rng, pres.tail));
            let set_of = |s: &Iupac| oracle::base_set(s.to_char() as u8);
            let sym_of_set = |m: u8| sym(oracle::letter_of_set(m));
            // complement of a base set in the oracle's numbering (A=1 C=2 G=4 T=8): A<->T, C<->G
            let comp = |s: &Iupac| {
                let m = set_of(s);
                sym_of_set(((m & 1) << 3) | ((m & 8) >> 3) | ((m & 2) << 1) | ((m & 4) >> 1))
            };
            let concrete = all.iter().all(|s| set_of(s).count_ones() == 1);
            match rng.below(9) {
                0 => {
                    let r: Seq<Iupac> = all.iter().rev().copied().collect();
                    let c: Seq<Iupac> = r.to_rev();
                    f(&c[off..off + n])
                }
                1 => {
                    let mut r: Seq<Iupac> = all.iter().rev().copied().collect();
                    r.rev();
                    f(&r[off..off + n])
                }
                2 => {
                    let cc: Seq<Iupac> = all.iter().map(comp).collect();
                    let c: Seq<Iupac> = cc.to_comp();
                    f(&c[off..off + n])
                }
                3 => {
                    let rc: Seq<Iupac> = all.iter().rev().map(comp).collect();
                    let c: Seq<Iupac> = rc.to_revcomp();
                    f(&c[off..off + n])
                }
                4 => {
                    // union of two subset sequences
                    let mut a = Vec::new();
                    let mut b = Vec::new();
                    for s in &all {
                        let m = set_of(s);
                        let x = m & (rng.below(16) as u8);
                        let y = (m & !x) | (m & (rng.below(16) as u8));
                        a.push(sym_of_set(x));
                        b.push(sym_of_set(y));
                    }
                    let a: Seq<Iupac> = a.into_iter().collect();
                    let b: Seq<Iupac> = b.into_iter().collect();
                    let c: Seq<Iupac> = &a[..] | &b[..];
                    f(&c[off..off + n])
                }
                5 => {
                    // intersection of two superset sequences
                    let mut a = Vec::new();
                    let mut b = Vec::new();
                    for s in &all {
                        let m = set_of(s);
                        let extra = (rng.below(16) as u8) & !m;
                        let split = rng.below(16) as u8;
                        a.push(sym_of_set(m | (extra & split)));
                        b.push(sym_of_set(m | (extra & !split)));
                    }
                    let a: Seq<Iupac> = a.into_iter().collect();
                    let b: Seq<Iupac> = b.into_iter().collect();
                    let c: Seq<Iupac> = &a[..] & &b[..];
                    f(&c[off..off + n])
                }
                6 => {
                    let orig: Seq<Iupac> = all.iter().copied().collect();
                    let c: Seq<Iupac> = Seq::from_raw(orig.len(), orig.into_raw()).expect("harness: from_raw of into_raw");
                    f(&c[off..off + n])
                }
                7 if concrete => {
                    let d: Seq<Dna> = all
                        .iter()
                        .map(|s| Dna::try_from_ascii(s.to_char() as u8).expect("harness: concrete base"))
                        .collect();
                    let c: Seq<Iupac> = Seq::from(&d[..]);
                    f(&c[off..off + n])
                }
                _ => {
                    let carrier: Seq<Iupac> = all.iter().copied().collect();
                    let w = &carrier[off..off + n];
                    macro_rules! via_kmer {
                        ($($k:literal),*) => {
                            match n {
                                $( $k => {
                                    let k: Kmer<Iupac, $k> = Kmer::try_from(w).expect("harness: kmer of a window");
                                    f(&k)
                                } )*
                                _ => f(w),
                            }
                        };
                    }
                    via_kmer!(1, 2, 3, 4, 5, 6, 7, 16)
                }
            }
        }
        PresKind::Static => {
            assert!(n == 3, "harness: static presentation is for codons");
            let pos = DEBRUIJN_TEXT.find(text).expect("harness: De Bruijn literal holds every codon");
            let arr = debruijn_static(pos / DEBRUIJN_CHUNK);
            let local = pos % DEBRUIJN_CHUNK;
            f(&arr[local..local + 3])
        }
    }
}

// ------------------------------------------------------------------------------------------------
// execution and oracle

fn classify<A: Codec>(r: &Result<Amino, TranslationError<A, Amino>>) -> String {
    match r {
        Ok(a) => format!("Ok({})", a.to_char() as char),
        Err(TranslationError::AmbiguousCodon(_)) => "Err(AmbiguousCodon)".into(),
        Err(TranslationError::AmbiguousTranslation(_)) => "Err(AmbiguousTranslation)".into(),
        Err(TranslationError::InvalidCodon(_)) => "Err(InvalidCodon)".into(),
        Err(TranslationError::InvalidAmino(_)) => "Err(InvalidAmino)".into(),
    }
}

fn classify_codon(r: &Result<Seq<Iupac>, TranslationError<Iupac, Amino>>) -> String {
    match r {
        Ok(c) => format!("Ok({c})"),
        Err(TranslationError::AmbiguousCodon(_)) => "Err(AmbiguousCodon)".into(),
        Err(TranslationError::AmbiguousTranslation(_)) => "Err(AmbiguousTranslation)".into(),
        Err(TranslationError::InvalidCodon(_)) => "Err(InvalidCodon)".into(),
        Err(TranslationError::InvalidAmino(_)) => "Err(InvalidAmino)".into(),
    }
}

fn panic_text(p: Box<dyn std::any::Any + Send>) -> String {
    let s = if let Some(s) = p.downcast_ref::<&str>() {
        (*s).to_string()
    } else if let Some(s) = p.downcast_ref::<String>() {
        s.clone()
    } else {
        "non-string panic".to_string()
    };
    let s: String = s.chars().take(120).collect();
    format!("PANIC({s})")
}

/// Execute one operation against the real library. Returns the observable result as text.
pub fn execute(op: &Op) -> String {
    let r = catch_unwind(AssertUnwindSafe(|| match op {
        Op::Amino { codon, pres } => present(codon, pres, |s| classify(&STANDARD.try_to_amino(s))),
        Op::BadLen { syms, pres } => present(syms, pres, |s| classify(&STANDARD.try_to_amino(s))),
        Op::Noise { kind, arg } => format!("noise:{:x}", crate::noise::run(kind, *arg)),
        Op::Codon { amino } => {
            let a = Amino::try_from_ascii(amino.as_bytes()[0]).expect("harness: amino letter");
            let r = STANDARD.try_to_codon(a);
            let mut text = classify_codon(&r);
            if let Ok(c) = r {
                // feed the returned codon back
                let back = classify(&STANDARD.try_to_amino(&c));
                text = format!("{text} back={back}");
            }
            text
        }
    }));
    match r {
        Ok(s) => s,
        Err(p) => panic_text(p),
    }
}

/// What the property demands for `op`; `Err(class, expected-text)` when `got` departs from it.
pub fn judge(op: &Op, got: &str) -> Result<(), (String, String)> {
    match op {
        // noise belongs to other properties: whatever it does (even a panic) is not judged here
        Op::Noise { .. } => Ok(()),
        Op::Amino { codon, .. } => {
            let b = codon.as_bytes();
            match oracle::expect_amino(&[b[0], b[1], b[2]]) {
                ExpectAmino::Exactly(x) => {
                    let want = format!("Ok({})", x as char);
                    if got == want {
                        Ok(())
                    } else if got.starts_with("PANIC") {
                        Err(("panic".into(), want))
                    } else if got.starts_with("Ok(") {
                        Err(("wrong-amino".into(), want))
                    } else if got == "Err(AmbiguousTranslation)" {
                        Err(("incomplete".into(), want))
                    } else {
                        Err(("wrong-error".into(), want))
                    }
                }
                ExpectAmino::Ambiguous => {
                    let want = "Err(AmbiguousTranslation)".to_string();
                    if got == want {
                        Ok(())
                    } else if got.starts_with("PANIC") {
                        Err(("panic".into(), want))
                    } else if got.starts_with("Ok(") {
                        Err(("unsound".into(), want))
                    } else {
                        Err(("wrong-error".into(), want))
                    }
                }
                ExpectAmino::GapUnconstrained => {
                    if got.starts_with("PANIC") {
                        Err(("panic".into(), "any non-panicking result".into()))
                    } else {
                        Ok(())
                    }
                }
            }
        }
        Op::BadLen { .. } => {
            let want = "Err(InvalidCodon)".to_string();
            if got == want {
                Ok(())
            } else if got.starts_with("PANIC") {
                Err(("panic".into(), want))
            } else {
                Err(("badlen-not-invalid".into(), want))
            }
        }
        Op::Codon { amino } => {
            let a = amino.as_bytes()[0];
            match oracle::expect_codon(a) {
                Some(c) => {
                    let want = format!("Ok({}) back=Ok({})", String::from_utf8_lossy(&c), a as char);
                    if got == want {
                        Ok(())
                    } else if got.starts_with("PANIC") {
                        Err(("panic".into(), want))
                    } else if got.starts_with("Ok(") && !got.starts_with(&format!("Ok({})", String::from_utf8_lossy(&c))) {
                        Err(("wrong-codon".into(), want))
                    } else if got.starts_with("Ok(") {
                        Err(("codon-does-not-translate-back".into(), want))
                    } else {
                        Err(("codon-missing".into(), want))
                    }
                }
                None => {
                    let want = "Err(AmbiguousCodon)".to_string();
                    if got == want {
                        Ok(())
                    } else if got.starts_with("PANIC") {
                        Err(("panic".into(), want))
                    } else if got.starts_with("Ok(") {
                        Err(("codon-for-ambiguous-amino".into(), want))
                    } else {
                        Err(("wrong-error".into(), want))
                    }
                }
            }
        }
    }
}

/// Real OS threads standing in for the simulated clients. Each is parked on a channel; the
/// simulator sends it exactly one operation and blocks until the answer is back, so at any moment
/// at most one thread of the process is running and the interleaving is the simulator's choice.
struct ClientThread {
    tx: std::sync::mpsc::Sender<Option<Op>>,
    rx: std::sync::mpsc::Receiver<String>,
    handle: std::thread::JoinHandle<()>,
}

#[derive(Default)]
struct ClientPool {
    threads: BTreeMap<usize, ClientThread>,
    spawned: usize,
    retired: usize,
}

impl ClientPool {
    fn execute_on(&mut self, client: usize, op: &Op) -> String {
        if !self.threads.contains_key(&client) {
            let (tx, crx) = std::sync::mpsc::channel::<Option<Op>>();
            let (ctx, rx) = std::sync::mpsc::channel::<String>();
            let handle = std::thread::Builder::new()
                .name(format!("sim-client-{client}"))
                .stack_size(4 << 20)
                .spawn(move || {
                    while let Ok(Some(op)) = crx.recv() {
                        if ctx.send(execute(&op)).is_err() {
                            break;
                        }
                    }
                })
                .expect("harness: spawn client thread");
            self.spawned += 1;
            self.threads.insert(client, ClientThread { tx, rx, handle });
        }
        let t = &self.threads[&client];
        t.tx.send(Some(op.clone())).expect("harness: client thread alive");
        match t.rx.recv() {
            Ok(s) => s,
            // execute() catches panics of the code under test, so a dead client thread means the
            // process-level machinery failed (e.g. abort-on-double-panic is not catchable here)
            Err(_) => "PANIC(client thread died)".to_string(),
        }
    }

    fn retire(&mut self, client: usize) {
        if let Some(t) = self.threads.remove(&client) {
            let _ = t.tx.send(None);
            let _ = t.handle.join();
            self.retired += 1;
        }
    }

    fn retire_all(&mut self) {
        let ids: Vec<usize> = self.threads.keys().copied().collect();
        for c in ids {
            self.retire(c);
        }
    }
}

#[derive(Serialize, Deserialize, Clone, Debug)]
pub struct Violation {
    pub class: String,
    pub step: usize,
    pub client: usize,
    pub op: String,
    pub expected: String,
    pub got: String,
}

#[derive(Serialize, Deserialize, Clone, Debug, Default)]
pub struct RunStats {
    pub steps: usize,
    pub amino_ops: usize,
    pub codon_ops: usize,
    pub badlen_ops: usize,
    pub gapfree_exact_checked: usize,
    pub gapfree_ambiguous_checked: usize,
    pub gap_nopanic_checked: usize,
    pub distinct_gapfree_codons: usize,
    pub distinct_codons: usize,
    pub pres_kinds: BTreeMap<String, usize>,
    /// bit r set = some window started at symbol offset ≡ r (mod 16)
    pub offset_residues: u32,
    pub straddling_windows: usize,
    /// (op kind, forward table warm?, inverse table warm?) cells hit, as modelled by the harness
    pub init_cells: Vec<String>,
    pub first_op: String,
    pub schedule_sig: String,
    pub repeats_checked: usize,
    pub client_threads_spawned: usize,
    pub client_threads_retired: usize,
    pub far_offset_windows: usize,
    pub noise_ops: usize,
    pub noise_kinds: BTreeMap<String, usize>,
}

#[derive(Serialize, Deserialize, Clone, Debug)]
pub struct RunResult {
    pub run_seed: u64,
    pub clients: usize,
    pub mode: String,
    pub first_kind: String,
    pub exec: String,
    pub digest: String,
    pub stats: RunStats,
    pub violations: Vec<Violation>,
    pub violation_count: usize,
    pub sample_events: Vec<String>,
}

pub fn run(cfg: &Config) -> RunResult {
    std::panic::set_hook(Box::new(|_| {}));
    let mut digest = Digest::default();
    let mut stats = RunStats::default();
    let mut violations = Vec::new();
    let mut violation_count = 0usize;
    let mut seen: BTreeMap<String, String> = BTreeMap::new();
    let mut codons_seen: std::collections::BTreeSet<String> = Default::default();
    let mut cells: std::collections::BTreeSet<String> = Default::default();
    let mut sample_events = Vec::new();
    // the harness's model of which table is warm (the real cells are not observable without a
    // hook; this only labels coverage, no check depends on it)
    let mut fwd_warm = false;
    let mut inv_warm = false;
    let mut sched = Digest::default();
    let mut pool = ClientPool::default();
    let threaded = cfg.exec == "threads";

    for (i, step) in cfg.steps.iter().enumerate() {
        let got = if threaded { pool.execute_on(step.client, &step.op) } else { execute(&step.op) };
        if threaded && step.retire {
            pool.retire(step.client);
        }
        let kind = match &step.op {
            Op::Amino { .. } => "amino",
            Op::Codon { .. } => "codon",
            Op::BadLen { .. } => "badlen",
            Op::Noise { .. } => "noise",
        };
        if kind != "noise" {
            cells.insert(format!("{kind}:fwd={}:inv={}", u8::from(fwd_warm), u8::from(inv_warm)));
        }
        if i == 0 {
            stats.first_op = step.op.describe();
        }
        if i < 32 {
            sched.feed_u64(step.client as u64);
        }
        match &step.op {
            Op::Amino { codon, pres } => {
                stats.amino_ops += 1;
                fwd_warm = true;
                codons_seen.insert(codon.clone());
                let b = codon.as_bytes();
                match oracle::expect_amino(&[b[0], b[1], b[2]]) {
                    ExpectAmino::Exactly(_) => stats.gapfree_exact_checked += 1,
                    ExpectAmino::Ambiguous => stats.gapfree_ambiguous_checked += 1,
                    ExpectAmino::GapUnconstrained => stats.gap_nopanic_checked += 1,
                }
                note_pres(&mut stats, pres, 3);
            }
            Op::Codon { .. } => {
                stats.codon_ops += 1;
                fwd_warm = true;
                inv_warm = true;
            }
            Op::BadLen { syms, pres } => {
                stats.badlen_ops += 1;
                note_pres(&mut stats, pres, syms.len());
            }
            Op::Noise { kind, .. } => {
                stats.noise_ops += 1;
                *stats.noise_kinds.entry(kind.clone()).or_insert(0) += 1;
                if kind == "other-table" || kind == "dna-table" {
                    // (these touch neither lazily initialised table)
                }
            }
        }

        digest.feed_u64(i as u64);
        digest.feed_u64(step.client as u64);
        digest.feed_u64(u64::from(step.retire));
        digest.feed(step.op.describe().as_bytes());
        digest.feed(got.as_bytes());
        if i < 6 || (i % 997 == 0 && sample_events.len() < 12) {
            sample_events.push(format!("#{i} c{} {} -> {got}", step.client, step.op.describe()));
        }

        let mut bad: Option<(String, String)> = judge(&step.op, &got).err();
        // history-level: the tables never change once observed, so equal gap-free operations
        // have equal results at every position of the history
        let constrained = match &step.op {
            Op::Amino { codon, .. } => !codon.contains('-'),
            Op::Noise { .. } => false,
            _ => true,
        };
        if constrained {
            let key = step.op.key();
            if let Some(prev) = seen.get(&key) {
                stats.repeats_checked += 1;
                if *prev != got && bad.is_none() {
                    bad = Some(("unstable".into(), prev.clone()));
                }
            } else {
                seen.insert(key, got.clone());
            }
        }
        if let Some((class, expected)) = bad {
            violation_count += 1;
            if violations.len() < 8 {
                violations.push(Violation {
                    class,
                    step: i,
                    client: step.client,
                    op: step.op.describe(),
                    expected,
                    got,
                });
            }
        }
    }
    pool.retire_all();
    stats.client_threads_spawned = pool.spawned;
    stats.client_threads_retired = pool.retired;
    stats.steps = cfg.steps.len();
    stats.distinct_codons = codons_seen.len();
    stats.distinct_gapfree_codons = codons_seen.iter().filter(|c| !c.contains('-')).count();
    stats.init_cells = cells.into_iter().collect();
    stats.schedule_sig = format!("{:016x}", sched.0);
    RunResult {
        run_seed: cfg.run_seed,
        clients: cfg.clients,
        mode: cfg.mode.clone(),
        first_kind: cfg.first_kind.clone(),
        exec: cfg.exec.clone(),
        digest: format!("{:016x}", digest.0),
        stats,
        violations,
        violation_count,
        sample_events,
    }
}

fn note_pres(stats: &mut RunStats, pres: &Pres, n: usize) {
    *stats.pres_kinds.entry(format!("{:?}", pres.kind)).or_insert(0) += 1;
    if pres.kind != PresKind::Static && pres.kind != PresKind::Derived {
        if pres.off >= 255 {
            stats.far_offset_windows += 1;
        }
        stats.offset_residues |= 1 << (pres.off % 16);
        if n > 0 && (pres.off % 16) + n > 16 {
            stats.straddling_windows += 1;
        }
    }
}

// ------------------------------------------------------------------------------------------------
// Engine M: the scenario executed under Miri (real threads, real OnceLock; Miri's seeded
// scheduler decides every preemption and its race detector watches every access)

pub mod miri_scenario {
    //! Also compiled into the shuttle engine (Engine S), where `crate::rt::thread` is shuttle's.
    use super::*;
    use std::sync::atomic::{AtomicUsize, Ordering};

    /// Relaxed on purpose: the logger must not add a happens-before edge that could hide a race
    /// in the code under test.
    static STAMP: AtomicUsize = AtomicUsize::new(0);

    /// Upper bound on threads in the uniform-role scenarios: 4 under Miri (cost), 6 under shuttle.
    pub static MAX_THREADS: AtomicUsize = AtomicUsize::new(4);

    pub struct ThreadPlan {
        pub role: &'static str,
        pub ops: Vec<Op>,
    }

    pub fn exact_codon(rng: &mut Rng) -> String {
        // rejection-sample a gap-free codon with an exact answer (about one in nine)
        loop {
            let c = letters(rng, 3, false);
            let b = c.as_bytes();
            if matches!(oracle::expect_amino(&[b[0], b[1], b[2]]), ExpectAmino::Exactly(_)) {
                return c;
            }
        }
    }

    fn straddling_pres(rng: &mut Rng) -> Pres {
        let kind = match rng.below(3) {
            0 => PresKind::Window,
            1 => PresKind::Owned,
            _ => PresKind::Window,
        };
        Pres { kind, off: 14 + rng.below(2), tail: rng.below(3), fill: rng.next_u64() }
    }

    pub fn plan(seed: u64, threads_override: Option<usize>, ops_override: Option<usize>) -> Vec<ThreadPlan> {
        let mut rng = Rng::new(seed);
        let amino_op = |rng: &mut Rng| {
            let codon = if rng.chance(3, 4) { exact_codon(rng) } else { letters(rng, 3, false) };
            Op::Amino { codon, pres: straddling_pres(rng) }
        };
        let codon_op = |rng: &mut Rng| Op::Codon { amino: (*rng.pick(AMINO_LETTERS) as char).to_string() };
        // scenario kinds (swarm): "mixed" = every thread starts on a different path into the cold
        // tables; "all-codon" / "all-amino" = three or four threads start on the SAME path, so
        // they reach the same check-then-act window of the initialisation protocol almost in
        // lock-step (what a multi-party race on one cell needs)
        let scenario = match rng.below(5) {
            0 | 1 => "mixed",
            2 => "all-codon",
            3 => "all-amino",
            // "steady": the tables are already warm (the first thread's plan starts with a marker
            // the scenario runner executes before spawning anybody); then every thread translates
            // a few codons drawn from one small pool of codons with exact answers, so threads keep
            // asking for what another thread has just asked — for state shared between calls
            // (memo cells, seqlock-style caches) rather than between first calls
            _ => "steady",
        };
        if scenario == "steady" {
            let max_t = MAX_THREADS.load(Ordering::Relaxed).max(4);
            let t_full = 2 + rng.below(max_t - 1);
            let pool: Vec<String> = (0..rng.range(2, 4)).map(|_| exact_codon(&mut rng)).collect();
            let mut plans = Vec::new();
            for _ in 0..max_t {
                let mut ops = Vec::new();
                for _ in 0..rng.range(2, 5) {
                    ops.push(if rng.chance(5, 6) {
                        Op::Amino { codon: rng.pick(&pool).clone(), pres: straddling_pres(&mut rng) }
                    } else {
                        codon_op(&mut rng)
                    });
                }
                ops.truncate(ops_override.unwrap_or(5).max(1).min(5));
                plans.push(ThreadPlan { role: "steady", ops });
            }
            plans.truncate(threads_override.unwrap_or(t_full).max(1).min(max_t));
            return plans;
        }
        let mut plans = Vec::new();
        if scenario == "mixed" {
            let t_full = 2 + rng.below(2);
            let roles = ["codon-first", "amino-first", "badlen-first"];
            let rot = rng.below(3);
            for i in 0..3 {
                let role = roles[(i + rot) % 3];
                let mut ops = Vec::new();
                match role {
                    "codon-first" => {
                        ops.push(codon_op(&mut rng));
                        ops.push(amino_op(&mut rng));
                        ops.push(codon_op(&mut rng));
                    }
                    "amino-first" => {
                        ops.push(amino_op(&mut rng));
                        ops.push(codon_op(&mut rng));
                        ops.push(amino_op(&mut rng));
                    }
                    _ => {
                        let n = *rng.pick(&[0usize, 1, 2, 4, 5]);
                        ops.push(Op::BadLen { syms: letters(&mut rng, n, true), pres: straddling_pres(&mut rng) });
                        if rng.chance(1, 2) {
                            ops.push(codon_op(&mut rng));
                            ops.push(amino_op(&mut rng));
                        } else {
                            ops.push(amino_op(&mut rng));
                            ops.push(codon_op(&mut rng));
                        }
                    }
                }
                let keep = 2 + rng.below(2);
                ops.truncate(ops_override.unwrap_or(keep).max(1).min(3));
                plans.push(ThreadPlan { role, ops });
            }
            plans.truncate(threads_override.unwrap_or(t_full).max(1).min(3));
        } else {
            let max_t = MAX_THREADS.load(Ordering::Relaxed).max(4);
            let t_full = if max_t > 4 && rng.chance(1, 3) { 5 + rng.below(max_t - 4) } else { 3 + rng.below(2) };
            for _ in 0..max_t {
                let mut ops = Vec::new();
                if scenario == "all-codon" {
                    ops.push(codon_op(&mut rng));
                    ops.push(codon_op(&mut rng));
                    ops.push(amino_op(&mut rng));
                } else {
                    ops.push(amino_op(&mut rng));
                    ops.push(codon_op(&mut rng));
                    ops.push(codon_op(&mut rng));
                }
                let keep = 1 + rng.below(3);
                ops.truncate(ops_override.unwrap_or(keep).max(1).min(3));
                let role = if scenario == "all-codon" { "codon-first" } else { "amino-first" };
                plans.push(ThreadPlan { role, ops });
            }
            plans.truncate(threads_override.unwrap_or(t_full).max(1).min(max_t));
        }
        plans
    }

    struct Ev {
        thread: usize,
        idx: usize,
        start: usize,
        end: usize,
        op: Op,
        got: String,
    }

    /// Returns the process exit code (0 held, 1 violation).
    pub fn main(seed: u64, threads_override: Option<usize>, ops_override: Option<usize>) -> i32 {
        std::panic::set_hook(Box::new(|_| {}));
        let plans = plan(seed, threads_override, ops_override);
        println!("SIM-START c14-conc seed={seed} threads={}", plans.len());
        for (i, p) in plans.iter().enumerate() {
            let d: Vec<String> = p.ops.iter().map(Op::describe).collect();
            println!("SIM-PLAN t{i} role={} ops=[{}]", p.role, d.join("; "));
        }
        if plans.iter().any(|p| p.role == "steady") {
            // warm both tables before anybody is spawned
            let _ = execute(&Op::Codon { amino: "M".to_string() });
            let _ = execute(&Op::Amino { codon: "ATG".to_string(), pres: Pres::plain() });
        }
        let mut handles = Vec::new();
        for (ti, p) in plans.iter().enumerate() {
            let ops = p.ops.clone();
            handles.push(crate::rt::thread::spawn(move || {
                let mut evs = Vec::new();
                for (idx, op) in ops.into_iter().enumerate() {
                    let start = STAMP.fetch_add(1, Ordering::Relaxed);
                    let got = execute(&op);
                    let end = STAMP.fetch_add(1, Ordering::Relaxed);
                    evs.push(Ev { thread: ti, idx, start, end, op, got });
                }
                evs
            }));
        }
        let mut evs: Vec<Ev> = Vec::new();
        let mut join_failed = false;
        for h in handles {
            match h.join() {
                Ok(v) => evs.extend(v),
                Err(_) => join_failed = true,
            }
        }
        evs.sort_by_key(|e| e.start);

        let mut digest = Digest::default();
        let mut violations = 0;
        // interleaving signature: the order of (thread, start/end) stamps
        let mut marks: Vec<(usize, String)> = Vec::new();
        for e in &evs {
            marks.push((e.start, format!("t{}s{}", e.thread, e.idx)));
            marks.push((e.end, format!("t{}e{}", e.thread, e.idx)));
        }
        marks.sort();
        let sig: Vec<String> = marks.into_iter().map(|m| m.1).collect();
        // did at least two threads have their first operation in flight at the same time?
        let firsts: Vec<&Ev> = evs.iter().filter(|e| e.idx == 0).collect();
        let mut overlap = false;
        for a in &firsts {
            for b in &firsts {
                if a.thread < b.thread && a.start < b.end && b.start < a.end {
                    overlap = true;
                }
            }
        }
        let mut any_overlap = false;
        for a in &evs {
            for b in &evs {
                if a.thread < b.thread && a.start < b.end && b.start < a.end {
                    any_overlap = true;
                }
            }
        }
        if join_failed {
            violations += 1;
            println!("SIM-VIOLATION class=thread-panicked op=- expected=join got=panic");
        }
        for e in &evs {
            println!("SIM-EV start={} end={} t{} #{} {} -> {}", e.start, e.end, e.thread, e.idx, e.op.describe(), e.got);
            digest.feed_u64(e.start as u64);
            digest.feed_u64(e.end as u64);
            digest.feed_u64(e.thread as u64);
            digest.feed(e.op.describe().as_bytes());
            digest.feed(e.got.as_bytes());
            if let Err((class, expected)) = judge(&e.op, &e.got) {
                violations += 1;
                println!(
                    "SIM-VIOLATION class={class} op={} expected={expected} got={}",
                    e.op.describe().replace(' ', "_"),
                    e.got.replace(' ', "_")
                );
            }
        }
        // post-initialisation stability: every operation once more, on the main thread
        for e in &evs {
            let again = execute(&e.op);
            digest.feed(again.as_bytes());
            if again != e.got && !matches!(&e.op, Op::Amino { codon, .. } if codon.contains('-')) {
                violations += 1;
                println!(
                    "SIM-VIOLATION class=unstable-after-init op={} expected={} got={}",
                    e.op.describe().replace(' ', "_"),
                    e.got.replace(' ', "_"),
                    again.replace(' ', "_")
                );
            }
        }
        println!("SIM-SIG {}", sig.join(","));
        println!("SIM-OVERLAP first_ops_concurrent={overlap} any_ops_concurrent={any_overlap}");
        println!("SIM-END digest={:016x} events={} violations={violations}", digest.0, evs.len());
        i32::from(violations > 0)
    }
}
