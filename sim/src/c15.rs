//! C15: custom codon tables under every hash-iteration order.
//!
//! One simulated run = one *logical* map, materialised as several *physical* `HashMap`s, each on
//! a fresh thread whose `RandomState` keys come from the run's PRNG through the entropy seam and
//! each through its own construction history, so that `CodonTable::from_map` meets many iteration
//! orders of the same content. Every table then answers the full query set and is compared, query
//! by query, with an association-list model.

use std::collections::{BTreeMap, BTreeSet, HashMap};
use std::panic::{catch_unwind, AssertUnwindSafe};

use bio_seq::prelude::*;
use bio_seq::translation::{CodonTable, PartialTranslationTable, TranslationError};
use serde::{Deserialize, Serialize};

use crate::entropy;
use crate::oracle::AMINO_LETTERS;
use crate::prng::{run_seed, Digest, Rng, TAG_C15};

// ------------------------------------------------------------------------------------------------
// configuration

#[derive(Serialize, Deserialize, Clone, Debug, PartialEq, Eq)]
#[serde(rename_all = "snake_case")]
pub enum KeyKind {
    /// `Seq::try_from(text)`
    Parsed,
    /// `carrier[off..off+n].to_owned()`: equal content, non-zero head offset in the bit vector
    OwnedWindow,
    /// pushed symbol by symbol into `Seq::new()`
    Pushed,
    /// built longer and cut back with `remove` / `truncate`
    Edited,
    /// `.clone()` of an `OwnedWindow`
    Cloned,
    /// the key is the RESULT of another library operation: reverse of the reversed text,
    /// complement of the complemented text, reverse-complement, `from_raw(into_raw())`,
    /// or `Seq::from(Kmer)`
    Derived,
}

#[derive(Serialize, Deserialize, Clone, Debug, PartialEq, Eq)]
pub struct KeyPres {
    pub kind: KeyKind,
    pub off: usize,
    pub fill: u64,
}

#[derive(Serialize, Deserialize, Clone, Debug, PartialEq, Eq)]
#[serde(tag = "c", rename_all = "snake_case")]
pub enum Ctor {
    New,
    WithCapacity { cap: usize },
    /// `iter.collect::<HashMap<_,_>>()`
    Collect,
    /// `CodonTable::from_map([(k, v); N])` — the array is converted inside `from_map`
    Array,
    /// `HashMap::new()` then `extend(iter)`
    Extend,
}

#[derive(Serialize, Deserialize, Clone, Debug, PartialEq, Eq)]
#[serde(tag = "h", rename_all = "snake_case")]
pub enum Churn {
    /// insert `n` decoy keys (not in the logical map) and remove them again
    Decoys { at: usize, n: usize, seed: u64 },
    Reserve { at: usize, n: usize },
    Shrink { at: usize },
    /// replace the map by its clone
    CloneSwap { at: usize },
    /// remove an entry inserted earlier and insert it again (leaves a tombstone behind)
    RemoveReinsert { at: usize },
    /// insert an entry a second time with the same value
    InsertAgain { at: usize },
}

impl Churn {
    fn at(&self) -> usize {
        match self {
            Churn::Decoys { at, .. }
            | Churn::Reserve { at, .. }
            | Churn::Shrink { at }
            | Churn::CloneSwap { at }
            | Churn::RemoveReinsert { at }
            | Churn::InsertAgain { at } => *at,
        }
    }
    fn name(&self) -> &'static str {
        match self {
            Churn::Decoys { .. } => "decoys",
            Churn::Reserve { .. } => "reserve",
            Churn::Shrink { .. } => "shrink",
            Churn::CloneSwap { .. } => "clone_swap",
            Churn::RemoveReinsert { .. } => "remove_reinsert",
            Churn::InsertAgain { .. } => "insert_again",
        }
    }
}

#[derive(Serialize, Deserialize, Clone, Debug, PartialEq, Eq)]
pub struct Build {
    /// value behind the interposed `getrandom` for this physical map's thread
    pub entropy: u64,
    pub ctor: Ctor,
    /// insertion order: a permutation of the entry indices
    pub order: Vec<usize>,
    pub churn: Vec<Churn>,
    /// how each entry's key is materialised (indexed like `entries`)
    pub keys: Vec<KeyPres>,
    /// the table is built on the run thread but queried from another thread (it is Send + Sync)
    #[serde(default)]
    pub query_elsewhere: bool,
    /// this many further tables of the same content are built afterwards and all stay alive; the
    /// queries go round-robin over all of them (hundreds of tables created in one process)
    #[serde(default)]
    pub extra_tables: usize,
}

#[derive(Serialize, Deserialize, Clone, Debug, PartialEq, Eq)]
#[serde(rename_all = "snake_case")]
pub enum QPres {
    Parsed,
    Window,
    Owned,
    Reslice,
    /// a window of a static `dna!` / `iupac!` literal (De Bruijn sequence), when it holds the codon
    Static,
    /// a window of the result of reverse / complement / reverse-complement / from_raw, or the
    /// `Deref` view of a `Kmer`
    Derived,
}

#[derive(Serialize, Deserialize, Clone, Debug, PartialEq, Eq)]
#[serde(tag = "q", rename_all = "snake_case")]
pub enum Query {
    /// `table.try_to_amino(codon)` with the codon presented as described
    Amino { codon: String, pres: QPres, off: usize, tail: usize, fill: u64 },
    /// `table.try_to_codon(amino)`
    Codon { amino: String },
    /// something else the program does with the library on the same thread between two lookups
    /// (see noise.rs: other tables, motif search, set operations, ...); executed, never judged
    Noise { kind: String, arg: u64 },
    /// a SECOND table over the same codec, alive on the same thread at the same time, mapping
    /// (some of) the same codons to other amino acids; it is built, asked `codons` and `aminos`,
    /// and judged against its own association list (C15 holds for every table, also when several
    /// exist): state shared between tables shows on one side or the other
    Sibling { entries: Vec<(String, String)>, codons: Vec<String>, aminos: Vec<String> },
}

impl Query {
    pub fn describe(&self) -> String {
        match self {
            Query::Amino { codon, pres, off, tail, .. } => format!("amino({codon}) {pres:?}@{off}+{tail}"),
            Query::Codon { amino } => format!("codon({amino})"),
            Query::Noise { kind, arg } => format!("noise({kind},{arg:x})"),
            Query::Sibling { entries, codons, aminos } => {
                format!("sibling({} entries, {} codons, {} aminos)", entries.len(), codons.len(), aminos.len())
            }
        }
    }
}

#[derive(Serialize, Deserialize, Clone, Debug, PartialEq, Eq)]
pub struct Config {
    pub run_seed: u64,
    /// "dna" (2-bit) or "iupac" (4-bit)
    pub codec: String,
    /// the logical map: distinct codons -> amino letters
    pub entries: Vec<(String, String)>,
    pub builds: Vec<Build>,
    pub queries: Vec<Query>,
}

// ------------------------------------------------------------------------------------------------
// generation

fn alphabet(codec: &str) -> &'static [u8] {
    match codec {
        "dna" => b"ACGT",
        _ => b"ACGTRYSWKMBDHVN-",
    }
}

fn rand_codon(rng: &mut Rng, alpha: &[u8], len: usize) -> String {
    (0..len).map(|_| alpha[rng.below(alpha.len())] as char).collect()
}

fn gen_key_pres(rng: &mut Rng, per_word: usize) -> KeyPres {
    let kind = match rng.below(10) {
        0..=3 => KeyKind::Parsed,
        4..=6 => KeyKind::OwnedWindow,
        7 => KeyKind::Pushed,
        8 => KeyKind::Edited,
        _ => {
            if rng.chance(1, 2) {
                KeyKind::Cloned
            } else {
                KeyKind::Derived
            }
        }
    };
    let off = match rng.below(4) {
        0 => per_word - 1 - rng.below(3),
        _ => rng.below(2 * per_word),
    };
    KeyPres { kind, off, fill: rng.next_u64() }
}

fn gen_query(rng: &mut Rng, codon: String, per_word: usize) -> Query {
    let pres = match rng.below(10) {
        0 => QPres::Parsed,
        1..=4 => QPres::Window,
        5..=6 => QPres::Owned,
        7 => QPres::Reslice,
        8 => QPres::Static,
        _ => QPres::Derived,
    };
    let off = if pres == QPres::Parsed {
        0
    } else {
        match rng.below(4) {
            0 => per_word - 1 - rng.below(3.min(per_word)),
            _ => rng.below(2 * per_word + 1),
        }
    };
    let tail = if pres == QPres::Parsed { 0 } else { rng.below(6) };
    Query::Amino { codon, pres, off, tail, fill: rng.next_u64() }
}

fn space_all(alpha: usize, max_len: usize) -> usize {
    (1..=max_len).map(|l| alpha.pow(l as u32)).sum()
}

pub fn generate(seed: u64) -> Config {
    let mut rng = Rng::new(seed);
    let codec = if rng.chance(3, 5) { "dna" } else { "iupac" };
    let alpha = alphabet(codec);
    let per_word = if codec == "dna" { 32 } else { 16 };
    let max_len = if codec == "dna" { 4 } else { 3 };
    let base_len = rng.range(1, max_len);
    let mixed = rng.chance(1, 5);

    // logical map: choose amino symbols and a preimage count for each
    let mut entries: Vec<(String, String)> = Vec::new();
    let mut used: BTreeSet<String> = BTreeSet::new();
    // rarely a huge table in which one amino symbol can have more than 2^8 codons (IUPAC triplets,
    // or DNA codons of mixed lengths: 4 + 16 + 64 + 256 = 340)
    let huge = rng.chance(1, 160);
    let target_total = if huge {
        *rng.pick(&[257usize, 258, 300, 340, 513, 600, 1025])
    } else {
        *rng.pick(&[0usize, 1, 2, 3, 3, 4, 4, 5, 6, 8, 12, 16, 24, 48, 61, 64, 100, 200])
    };
    let mut aminos: Vec<u8> = AMINO_LETTERS.to_vec();
    rng.shuffle(&mut aminos);
    let space: usize = if mixed {
        (1..=max_len).map(|l| alpha.len().pow(l as u32)).sum()
    } else {
        alpha.len().pow(base_len as u32)
    };
    if target_total > 48 {
        // a large table (a complete genetic code has 64 codons): codons of one length from a space
        // that is big enough (all lengths together when no single length is), each assigned to one
        // of k amino symbols (few symbols for the huge ones: > 256 codons on one symbol)
        let fits = (1..=max_len).find(|l| alpha.len().pow(*l as u32) >= target_total);
        let all_lengths = fits.is_none();
        let len = fits.unwrap_or(max_len);
        let total = if all_lengths { space_all(alpha.len(), max_len).min(target_total) } else { target_total };
        let k = if huge { rng.range(1, 3) } else { rng.range(1, 21) };
        while entries.len() < total {
            let l = if all_lengths { rng.range(1, max_len) } else { len };
            let c = rand_codon(&mut rng, alpha, l);
            if used.insert(c.clone()) {
                let a = aminos[rng.below(k)];
                entries.push((c, (a as char).to_string()));
            }
        }
        aminos.clear();
    }
    'outer: for a in aminos {
        if entries.len() >= target_total {
            break;
        }
        let pre = *rng.pick(&[0usize, 1, 1, 1, 2, 2, 3, 5]);
        for _ in 0..pre {
            if entries.len() >= target_total || used.len() >= space {
                break 'outer;
            }
            let mut tries = 0;
            loop {
                let len = if mixed { rng.range(1, max_len) } else { base_len };
                let c = rand_codon(&mut rng, alpha, len);
                tries += 1;
                if used.insert(c.clone()) {
                    entries.push((c, (a as char).to_string()));
                    break;
                }
                if tries > 64 {
                    break;
                }
            }
        }
    }
    rng.shuffle(&mut entries);
    let n = entries.len();

    // physical maps
    let r = rng.range(2, 8);
    let mut builds = Vec::new();
    for _ in 0..r {
        let mut order: Vec<usize> = (0..n).collect();
        rng.shuffle(&mut order);
        let ctor = match rng.below(10) {
            0..=2 => Ctor::New,
            3..=4 => Ctor::WithCapacity { cap: *rng.pick(&[0usize, 1, 3, 4, 7, 8, 16, 28, 29, 64, 100, 1000]) },
            5..=6 => Ctor::Collect,
            7 => Ctor::Extend,
            _ => {
                if n <= 8 {
                    Ctor::Array
                } else {
                    Ctor::Collect
                }
            }
        };
        let mut churn = Vec::new();
        if matches!(ctor, Ctor::New | Ctor::WithCapacity { .. }) {
            for _ in 0..rng.below(4) {
                let at = rng.below(n + 1);
                churn.push(match rng.below(6) {
                    0 => Churn::Decoys { at, n: rng.range(1, 40), seed: rng.next_u64() },
                    1 => Churn::Reserve { at, n: *rng.pick(&[1usize, 8, 64, 500]) },
                    2 => Churn::Shrink { at },
                    3 => Churn::CloneSwap { at },
                    4 => Churn::RemoveReinsert { at },
                    _ => Churn::InsertAgain { at },
                });
            }
        }
        let keys = (0..n).map(|_| gen_key_pres(&mut rng, per_word)).collect();
        let query_elsewhere = rng.chance(1, 8);
        let extra_tables = if n <= 8 && rng.chance(1, 400) { rng.range(255, 300) } else if rng.chance(1, 20) { rng.range(1, 3) } else { 0 };
        builds.push(Build { entropy: rng.next_u64(), ctor, order, churn, keys, query_elsewhere, extra_tables });
    }

    // queries
    // Queries are generated as blocks that stay adjacent after shuffling, so that hidden state
    // carried from one lookup to the next (a one-entry cache, a lazily built inverse) meets the
    // related inputs most likely to collide with it.
    let mut blocks: Vec<Vec<Query>> = Vec::new();
    let zero = alpha[if codec == "dna" { 0 } else { 15 }] as char; // the all-zero-bits symbol
    for (c, a) in &entries {
        let mut blk = vec![gen_query(&mut rng, c.clone(), per_word)];
        for _ in 0..rng.below(3) {
            match rng.below(6) {
                0 => blk.push(gen_query(&mut rng, format!("{c}{zero}"), per_word)),
                1 => blk.push(gen_query(&mut rng, c[..c.len() - 1].to_string(), per_word)),
                2 => blk.push(gen_query(&mut rng, format!("{zero}{c}"), per_word)),
                3 => blk.push(Query::Codon { amino: a.clone() }),
                4 => {
                    let other = &entries[rng.below(entries.len())];
                    blk.push(gen_query(&mut rng, other.0.clone(), per_word));
                }
                _ => blk.push(gen_query(&mut rng, c.clone(), per_word)),
            }
        }
        if rng.chance(1, 3) {
            blk.insert(0, Query::Codon { amino: a.clone() });
        }
        if rng.chance(1, 6) {
            let at = 1 + rng.below(blk.len());
            blk.insert(at, Query::Noise { kind: (*rng.pick(crate::noise::KINDS)).to_string(), arg: rng.next_u64() });
        }
        blocks.push(blk);
    }
    for _ in 0..rng.below(4) {
        blocks.push(vec![Query::Noise { kind: (*rng.pick(crate::noise::KINDS)).to_string(), arg: rng.next_u64() }]);
    }
    if !entries.is_empty() && rng.chance(1, 3) {
        for _ in 0..rng.range(1, 2) {
            // same codons, other amino acids (rotated through the symbols in use, or fresh ones)
            let mut sib: Vec<(String, String)> = Vec::new();
            for (c, a) in &entries {
                if rng.chance(2, 3) {
                    let other = AMINO_LETTERS[(AMINO_LETTERS.iter().position(|x| *x == a.as_bytes()[0]).unwrap() + 1 + rng.below(20)) % 21];
                    sib.push((c.clone(), (other as char).to_string()));
                }
            }
            for _ in 0..rng.below(3) {
                let c = rand_codon(&mut rng, alpha, base_len);
                if sib.iter().all(|e| e.0 != c) {
                    sib.push((c, (*rng.pick(AMINO_LETTERS) as char).to_string()));
                }
            }
            let mut codons: Vec<String> = entries.iter().map(|e| e.0.clone()).collect();
            codons.extend(sib.iter().map(|e| e.0.clone()));
            codons.truncate(24);
            let aminos: Vec<String> = AMINO_LETTERS.iter().map(|a| (*a as char).to_string()).collect();
            blocks.push(vec![Query::Sibling { entries: sib, codons, aminos }]);
        }
    }
    let mut queries: Vec<Query> = Vec::new();
    let lens: BTreeSet<usize> = if mixed { (1..=max_len).collect() } else { [base_len].into_iter().collect() };
    for len in &lens {
        let total = alpha.len().pow(*len as u32);
        if total <= 256 {
            // the complete codon space of this length
            let mut idx = vec![0usize; *len];
            for _ in 0..total {
                let c: String = idx.iter().map(|i| alpha[*i] as char).collect();
                queries.push(gen_query(&mut rng, c, per_word));
                for d in (0..*len).rev() {
                    idx[d] += 1;
                    if idx[d] < alpha.len() {
                        break;
                    }
                    idx[d] = 0;
                }
            }
        } else {
            for _ in 0..48 {
                let c = rand_codon(&mut rng, alpha, *len);
                queries.push(gen_query(&mut rng, c, per_word));
            }
        }
    }
    // near misses of keys: one symbol changed, prefixes, extensions, the empty codon
    for (c, _) in entries.iter().take(16) {
        let b = c.as_bytes();
        let mut m = b.to_vec();
        let p = rng.below(m.len());
        m[p] = alpha[rng.below(alpha.len())];
        queries.push(gen_query(&mut rng, String::from_utf8(m).unwrap(), per_word));
        queries.push(gen_query(&mut rng, c[..c.len() - 1].to_string(), per_word));
        let mut e = c.clone();
        e.push(alpha[rng.below(alpha.len())] as char);
        queries.push(gen_query(&mut rng, e, per_word));
    }
    queries.push(gen_query(&mut rng, String::new(), per_word));
    // non-keys whose packed width sits on a machine-word boundary (63/64/65 and 127/128/129 bits'
    // worth of symbols): random ones, and keys padded with the all-zero symbol up to exactly that
    // width, on either side (what a packed-integer key with a sentinel bit would alias)
    for symbols in [per_word - 1, per_word, per_word + 1, 2 * per_word - 1, 2 * per_word, 2 * per_word + 1] {
        if rng.chance(1, 2) {
            let c = rand_codon(&mut rng, alpha, symbols);
            if !used.contains(&c) {
                queries.push(gen_query(&mut rng, c, per_word));
            }
        }
        if let Some((k, _)) = entries.get(rng.below(entries.len().max(1))) {
            if k.len() < symbols {
                let pad: String = std::iter::repeat(zero).take(symbols - k.len()).collect();
                let c = if rng.chance(2, 3) { format!("{k}{pad}") } else { format!("{pad}{k}") };
                if !used.contains(&c) {
                    queries.push(gen_query(&mut rng, c, per_word));
                }
            }
        }
    }
    for a in AMINO_LETTERS {
        queries.push(Query::Codon { amino: (*a as char).to_string() });
    }
    blocks.extend(queries.into_iter().map(|q| vec![q]));
    rng.shuffle(&mut blocks);
    let queries: Vec<Query> = blocks.into_iter().flatten().collect();

    Config { run_seed: seed, codec: codec.to_string(), entries, builds, queries }
}

// ------------------------------------------------------------------------------------------------
// the model: an association list

pub fn model_answer(entries: &[(String, String)], q: &Query) -> String {
    match q {
        Query::Noise { .. } => "noise".into(),
        Query::Sibling { .. } => "sibling-ok".into(),
        Query::Amino { codon, .. } => {
            let hits: Vec<&(String, String)> = entries.iter().filter(|(c, _)| c == codon).collect();
            match hits.len() {
                0 => "Err(InvalidCodon)".into(),
                _ => format!("Ok({})", hits[0].1),
            }
        }
        Query::Codon { amino } => {
            let pre: Vec<&(String, String)> = entries.iter().filter(|(_, a)| a == amino).collect();
            match pre.len() {
                0 => "Err(InvalidAmino)".into(),
                1 => format!("Ok({})", pre[0].0),
                _ => "Err(AmbiguousCodon)".into(),
            }
        }
    }
}

// ------------------------------------------------------------------------------------------------
// execution against the real library (generic over the codon codec)

mod statics {
    use bio_seq::prelude::*;
    include!("debruijn.rs");
    include!("debruijn_dna.rs");
}

/// The two codon codecs of C15, with what the harness needs to know about each beyond `Codec`.
pub trait CodonCodec: Codec + ComplementMut + Send + Sync + 'static {
    /// a window of a static literal showing exactly `text`, if the De Bruijn literal holds it
    fn static_window(text: &str) -> Option<&'static SeqSlice<Self>>;
    /// the letter whose complement is `letter` (complement is an involution on both alphabets)
    fn comp_letter(letter: u8) -> u8;
}

impl CodonCodec for Dna {
    fn static_window(text: &str) -> Option<&'static SeqSlice<Dna>> {
        let pos = statics::DEBRUIJN_DNA_TEXT.find(text)?;
        Some(&statics::debruijn_dna_static()[pos..pos + text.len()])
    }
    fn comp_letter(letter: u8) -> u8 {
        match letter {
            b'A' => b'T',
            b'T' => b'A',
            b'C' => b'G',
            b'G' => b'C',
            _ => panic!("harness: not a DNA letter"),
        }
    }
}

impl CodonCodec for Iupac {
    fn static_window(text: &str) -> Option<&'static SeqSlice<Iupac>> {
        if text.len() > 3 {
            return None;
        }
        let pos = statics::DEBRUIJN_TEXT.find(text)?;
        let chunk = pos / statics::DEBRUIJN_CHUNK;
        let local = pos % statics::DEBRUIJN_CHUNK;
        Some(&statics::debruijn_static(chunk)[local..local + text.len()])
    }
    fn comp_letter(letter: u8) -> u8 {
        let m = crate::oracle::base_set(letter);
        crate::oracle::letter_of_set(((m & 1) << 3) | ((m & 8) >> 3) | ((m & 2) << 1) | ((m & 4) >> 1))
    }
}

fn sym<A: Codec>(c: u8) -> A {
    A::try_from_ascii(c).unwrap_or_else(|| panic!("harness: letter {c} not in codec"))
}

fn filler<A: Codec>(rng: &mut Rng, alpha: &[u8], n: usize) -> Vec<A> {
    (0..n).map(|_| sym::<A>(alpha[rng.below(alpha.len())])).collect()
}

fn make_key<A: CodonCodec>(text: &str, kp: &KeyPres, alpha: &[u8]) -> Seq<A> {
    let syms: Vec<A> = text.bytes().map(sym::<A>).collect();
    let n = syms.len();
    let mut rng = Rng::new(kp.fill);
    match kp.kind {
        KeyKind::Parsed => Seq::<A>::try_from(text).expect("harness: parse key"),
        KeyKind::OwnedWindow | KeyKind::Cloned => {
            let mut all = filler::<A>(&mut rng, alpha, kp.off);
            all.extend(syms.iter().copied());
            all.extend(filler::<A>(&mut rng, alpha, 3));
            let carrier: Seq<A> = all.into_iter().collect();
            let o: Seq<A> = carrier[kp.off..kp.off + n].to_owned();
            if kp.kind == KeyKind::Cloned {
                o.clone()
            } else {
                o
            }
        }
        KeyKind::Derived => {
            let rev: Seq<A> = syms.iter().rev().copied().collect();
            let comp: Seq<A> = text.bytes().map(|c| sym::<A>(A::comp_letter(c))).collect();
            let revcomp: Seq<A> = text.bytes().rev().map(|c| sym::<A>(A::comp_letter(c))).collect();
            match rng.below(8) {
                6 | 7 => {
                    // the result of `|` / `&` on two windows that do not start on a word boundary
                    // (x | x = x and x & x = x for every codec; the result keeps the left operand's
                    // bit offset inside its storage)
                    let mut all = filler::<A>(&mut rng, alpha, kp.off);
                    all.extend(syms.iter().copied());
                    all.extend(filler::<A>(&mut rng, alpha, 2));
                    let left: Seq<A> = all.into_iter().collect();
                    let off2 = rng.below(7);
                    let mut all2 = filler::<A>(&mut rng, alpha, off2);
                    all2.extend(syms.iter().copied());
                    let right: Seq<A> = all2.into_iter().collect();
                    if rng.chance(1, 2) {
                        &left[kp.off..kp.off + n] | &right[off2..off2 + n]
                    } else {
                        &left[kp.off..kp.off + n] & &right[off2..off2 + n]
                    }
                }
                0 => rev.to_rev(),
                1 => comp.to_comp(),
                2 => revcomp.to_revcomp(),
                3 => {
                    // the same through offset windows of longer carriers (non-zero head offsets)
                    let mut all = filler::<A>(&mut rng, alpha, kp.off);
                    all.extend(rev.iter());
                    let carrier: Seq<A> = all.into_iter().collect();
                    carrier[kp.off..kp.off + n].to_rev()
                }
                4 => {
                    let plain: Seq<A> = syms.iter().copied().collect();
                    Seq::<A>::from_raw(n, plain.into_raw()).expect("harness: from_raw of into_raw")
                }
                _ => {
                    let plain: Seq<A> = syms.iter().copied().collect();
                    macro_rules! via_kmer {
                        ($($k:literal),*) => {
                            match n {
                                $( $k if $k * (A::BITS as usize) <= 64 => {
                                    let k: Kmer<A, $k> = Kmer::try_from(&plain[..]).expect("harness: kmer of a key");
                                    Seq::from(k)
                                } )*
                                _ => plain,
                            }
                        };
                    }
                    via_kmer!(1, 2, 3, 4)
                }
            }
        }
        KeyKind::Pushed => {
            let mut s = Seq::<A>::new();
            for x in syms {
                s.push(x);
            }
            s
        }
        KeyKind::Edited => {
            let junk: Seq<A> = filler::<A>(&mut rng, alpha, 1 + kp.off % 5).into_iter().collect();
            let mid: Seq<A> = syms.into_iter().collect();
            let mut s = junk.clone();
            s.append(&mid);
            s.append(&junk);
            s.truncate(junk.len() + n);
            s.remove(0..junk.len());
            s
        }
    }
}

fn ask<A: CodonCodec, R>(q_codon: &str, pres: &QPres, off: usize, tail: usize, fill: u64, alpha: &[u8], f: impl FnOnce(&SeqSlice<A>) -> R) -> R {
    let syms: Vec<A> = q_codon.bytes().map(sym::<A>).collect();
    let n = syms.len();
    let mut rng = Rng::new(fill);
    match pres {
        QPres::Parsed => {
            let s = Seq::<A>::try_from(q_codon).expect("harness: parse query");
            f(&s)
        }
        QPres::Static if A::static_window(q_codon).is_some() => f(A::static_window(q_codon).unwrap()),
        QPres::Derived => {
            let mut all = filler::<A>(&mut rng, alpha, off);
            all.extend(syms);
            all.extend(filler::<A>(&mut rng, alpha, tail));
            let total = all.len();
            let letters: Vec<u8> = all.iter().map(|s| s.to_char() as u8).collect();
            match rng.below(5) {
                0 => {
                    let r: Seq<A> = all.iter().rev().copied().collect();
                    let c = r.to_rev();
                    f(&c[off..off + n])
                }
                1 => {
                    let cc: Seq<A> = letters.iter().map(|c| sym::<A>(A::comp_letter(*c))).collect();
                    let c = cc.to_comp();
                    f(&c[off..off + n])
                }
                2 => {
                    let rc: Seq<A> = letters.iter().rev().map(|c| sym::<A>(A::comp_letter(*c))).collect();
                    let c = rc.to_revcomp();
                    f(&c[off..off + n])
                }
                3 => {
                    let orig: Seq<A> = all.iter().copied().collect();
                    let c = Seq::<A>::from_raw(total, orig.into_raw()).expect("harness: from_raw of into_raw");
                    f(&c[off..off + n])
                }
                _ => {
                    let carrier: Seq<A> = all.iter().copied().collect();
                    let w = &carrier[off..off + n];
                    macro_rules! via_kmer {
                        ($($k:literal),*) => {
                            match n {
                                $( $k if $k * (A::BITS as usize) <= 64 => {
                                    let k: Kmer<A, $k> = Kmer::try_from(w).expect("harness: kmer of a window");
                                    f(&k)
                                } )*
                                _ => f(w),
                            }
                        };
                    }
                    via_kmer!(1, 2, 3, 4, 5)
                }
            }
        }
        _ => {
            let mut all = filler::<A>(&mut rng, alpha, off);
            all.extend(syms);
            all.extend(filler::<A>(&mut rng, alpha, tail));
            let carrier: Seq<A> = all.into_iter().collect();
            match pres {
                QPres::Window => f(&carrier[off..off + n]),
                QPres::Owned => {
                    let o = carrier[off..off + n].to_owned();
                    f(&o)
                }
                _ => {
                    let a = rng.below(off + 1);
                    f(&carrier[a..][off - a..off - a + n])
                }
            }
        }
    }
}

fn classify<A: Codec>(r: &Result<Amino, TranslationError<A, Amino>>) -> String {
    match r {
        Ok(a) => format!("Ok({})", a.to_char() as char),
        Err(TranslationError::AmbiguousCodon(_)) => "Err(AmbiguousCodon)".into(),
        Err(TranslationError::AmbiguousTranslation(_)) => "Err(AmbiguousTranslation)".into(),
        Err(TranslationError::InvalidCodon(_)) => "Err(InvalidCodon)".into(),
        Err(TranslationError::InvalidAmino(_)) => "Err(InvalidAmino)".into(),
    }
}

fn classify_codon<A: Codec>(r: &Result<Seq<A>, TranslationError<A, Amino>>) -> String {
    match r {
        Ok(c) => format!("Ok({c})"),
        Err(TranslationError::AmbiguousCodon(_)) => "Err(AmbiguousCodon)".into(),
        Err(TranslationError::AmbiguousTranslation(_)) => "Err(AmbiguousTranslation)".into(),
        Err(TranslationError::InvalidCodon(_)) => "Err(InvalidCodon)".into(),
        Err(TranslationError::InvalidAmino(_)) => "Err(InvalidAmino)".into(),
    }
}

fn panic_text(p: Box<dyn std::any::Any + Send>) -> String {
    let s = if let Some(s) = p.downcast_ref::<&str>() {
        (*s).to_string()
    } else if let Some(s) = p.downcast_ref::<String>() {
        s.clone()
    } else {
        "non-string panic".to_string()
    };
    let s: String = s.chars().take(120).collect();
    format!("PANIC({s})")
}


/// Build the sibling table, ask it everything listed, compare with its own association list.
fn run_sibling<A: CodonCodec>(entries: &[(String, String)], codons: &[String], aminos: &[String]) -> String {
    let mut map: HashMap<Seq<A>, Amino> = HashMap::new();
    for (c, a) in entries {
        map.insert(
            Seq::<A>::try_from(c.as_str()).expect("harness: parse sibling key"),
            Amino::try_from_ascii(a.as_bytes()[0]).expect("harness: amino letter"),
        );
    }
    let t: CodonTable<A, Amino> = CodonTable::from_map(map);
    for c in codons {
        let q = Query::Amino { codon: c.clone(), pres: QPres::Parsed, off: 0, tail: 0, fill: 0 };
        let s = Seq::<A>::try_from(c.as_str()).expect("harness: parse sibling query");
        let got = classify(&t.try_to_amino(&s));
        let want = model_answer(entries, &q);
        if got != want {
            return format!("sibling-mismatch(amino({c}): want {want} got {got})");
        }
    }
    for a in aminos {
        let q = Query::Codon { amino: a.clone() };
        let got = classify_codon(&t.try_to_codon(Amino::try_from_ascii(a.as_bytes()[0]).expect("harness: amino letter")));
        let want = model_answer(entries, &q);
        if got != want {
            return format!("sibling-mismatch(codon({a}): want {want} got {got})");
        }
    }
    "sibling-ok".into()
}

macro_rules! from_array {
    ($pairs:expr, $($n:literal),*) => {
        match $pairs.len() {
            $( $n => {
                let arr: [(Seq<A>, Amino); $n] = match $pairs.try_into() { Ok(a) => a, Err(_) => unreachable!() };
                CodonTable::from_map(arr)
            } )*
            _ => panic!("harness: array constructor used for more than 8 entries"),
        }
    };
}

pub struct BuildOutcome {
    /// departures from std's HashMap contract seen while the physical map was built (an equal key
    /// stored twice, a key just inserted not found): impossible unless bio-seq's Hash / Eq / Borrow
    /// for sequences disagree, so each one is reported as a violation, not as a harness error
    pub anomalies: Vec<String>,
    /// entry indices in the order the physical map iterates (None when the map is built inside
    /// `from_map`, i.e. the array constructor)
    pub observed_order: Option<Vec<usize>>,
    pub answers: Vec<String>,
    pub capacity: usize,
}

/// Runs on the run's fresh thread: build the physical map, hand it to `from_map`, answer queries.
fn build_and_query<A: CodonCodec>(cfg: &Config, b: &Build) -> BuildOutcome {
    let alpha = alphabet(&cfg.codec);
    let amino = |s: &str| Amino::try_from_ascii(s.as_bytes()[0]).expect("harness: amino letter");
    let key = |i: usize| make_key::<A>(&cfg.entries[i].0, &b.keys[i], alpha);
    let pairs = |order: &[usize]| -> Vec<(Seq<A>, Amino)> { order.iter().map(|i| (key(*i), amino(&cfg.entries[*i].1))).collect() };

    let mut observed_order = None;
    let mut capacity = 0;
    let anomalies: std::cell::RefCell<Vec<String>> = std::cell::RefCell::new(Vec::new());
    let table: CodonTable<A, Amino> = match &b.ctor {
        Ctor::Array => {
            let v = pairs(&b.order);
            from_array!(v, 0, 1, 2, 3, 4, 5, 6, 7, 8)
        }
        other => {
            let mut map: HashMap<Seq<A>, Amino> = match other {
                Ctor::New | Ctor::Extend => HashMap::new(),
                Ctor::WithCapacity { cap } => HashMap::with_capacity(*cap),
                Ctor::Collect => pairs(&b.order).into_iter().collect(),
                Ctor::Array => unreachable!(),
            };
            match other {
                Ctor::Extend => map.extend(pairs(&b.order)),
                Ctor::New | Ctor::WithCapacity { .. } => {
                    let apply = |map: &mut HashMap<Seq<A>, Amino>, pos: usize, inserted: &[usize]| {
                        for ch in b.churn.iter().filter(|c| c.at() == pos) {
                            match ch {
                                Churn::Decoys { n, seed, .. } => {
                                    let mut rng = Rng::new(*seed);
                                    let mut decoys: Vec<Seq<A>> = Vec::new();
                                    for _ in 0..*n {
                                        // decoys are longer than any codon, so never a logical key
                                        let len = 5 + rng.below(4);
                                        let d: Seq<A> = filler::<A>(&mut rng, alpha, len).into_iter().collect();
                                        decoys.push(d);
                                    }
                                    for d in &decoys {
                                        map.insert(d.clone(), Amino::A);
                                    }
                                    for d in &decoys {
                                        map.remove(d);
                                    }
                                }
                                Churn::Reserve { n, .. } => map.reserve(*n),
                                Churn::Shrink { .. } => map.shrink_to_fit(),
                                Churn::CloneSwap { .. } => {
                                    let c = map.clone();
                                    *map = c;
                                }
                                Churn::RemoveReinsert { .. } => {
                                    if let Some(i) = inserted.last() {
                                        let k = key(*i);
                                        match map.remove(&k) {
                                            Some(v) => {
                                                map.insert(k, v);
                                            }
                                            None => anomalies.borrow_mut().push(format!(
                                                "HashMap::remove did not find key {k} that was inserted one step earlier"
                                            )),
                                        }
                                    }
                                }
                                Churn::InsertAgain { .. } => {
                                    if let Some(i) = inserted.first() {
                                        map.insert(key(*i), amino(&cfg.entries[*i].1));
                                    }
                                }
                            }
                        }
                    };
                    let mut inserted: Vec<usize> = Vec::new();
                    for (pos, i) in b.order.iter().enumerate() {
                        apply(&mut map, pos, &inserted);
                        map.insert(key(*i), amino(&cfg.entries[*i].1));
                        inserted.push(*i);
                    }
                    apply(&mut map, b.order.len(), &inserted);
                }
                _ => {}
            }
            if map.len() != cfg.entries.len() {
                anomalies.borrow_mut().push(format!(
                    "HashMap holds {} entries after inserting {} distinct codons (equal keys stored twice or lost)",
                    map.len(),
                    cfg.entries.len()
                ));
            }
            capacity = map.capacity();
            // the order the very object handed to from_map iterates in
            let text_to_idx: BTreeMap<&str, usize> = cfg.entries.iter().enumerate().map(|(i, e)| (e.0.as_str(), i)).collect();
            observed_order = Some(
                map.keys()
                    .map(|k| {
                        let t = k.to_string();
                        *text_to_idx.get(t.as_str()).expect("harness: physical key is a logical key")
                    })
                    .collect(),
            );
            CodonTable::from_map(map)
        }
    };

    let mut tables: Vec<CodonTable<A, Amino>> = vec![table];
    for _ in 0..b.extra_tables {
        let again: HashMap<Seq<A>, Amino> = pairs(&b.order).into_iter().collect();
        tables.push(CodonTable::from_map(again));
    }
    let answer_all = |tables: &[CodonTable<A, Amino>]| -> Vec<String> {
        let mut answers = Vec::with_capacity(cfg.queries.len());
        for (qi, q) in cfg.queries.iter().enumerate() {
            let table = &tables[qi % tables.len()];
            let got = catch_unwind(AssertUnwindSafe(|| match q {
                Query::Amino { codon, pres, off, tail, fill } => {
                    ask::<A, _>(codon, pres, *off, *tail, *fill, alpha, |s| classify(&table.try_to_amino(s)))
                }
                Query::Codon { amino: a } => {
                    classify_codon(&table.try_to_codon(Amino::try_from_ascii(a.as_bytes()[0]).expect("harness: amino letter")))
                }
                Query::Noise { kind, arg } => {
                    let _ = crate::noise::run(kind, *arg);
                    "noise".into()
                }
                Query::Sibling { entries, codons, aminos } => run_sibling::<A>(entries, codons, aminos),
            }));
            answers.push(match (q, got) {
                // noise belongs to other properties: never judged, not even a panic
                (Query::Noise { .. }, _) => "noise".into(),
                (_, Ok(s)) => s,
                (_, Err(p)) => panic_text(p),
            });
        }
        answers
    };
    let answers = if b.query_elsewhere {
        // one thread at a time: the run thread blocks in the scope until the query thread is done
        std::thread::scope(|sc| sc.spawn(|| answer_all(&tables)).join().expect("harness: query thread"))
    } else {
        answer_all(&tables)
    };
    BuildOutcome { anomalies: anomalies.into_inner(), observed_order, answers, capacity }
}

#[derive(Serialize, Deserialize, Clone, Debug)]
pub struct Violation {
    pub class: String,
    pub build: usize,
    pub query: String,
    pub expected: String,
    pub got: String,
    pub observed_order: Option<Vec<usize>>,
}

#[derive(Serialize, Deserialize, Clone, Debug, Default)]
pub struct RunStats {
    pub entries: usize,
    pub builds: usize,
    pub queries: usize,
    pub key_queries: usize,
    pub nonkey_queries: usize,
    pub reverse_queries: usize,
    pub noise_queries: usize,
    pub sibling_tables: usize,
    pub distinct_orders: usize,
    pub aminos_by_preimages: [usize; 4],
    pub ctor_kinds: BTreeMap<String, usize>,
    pub churn_kinds: BTreeMap<String, usize>,
    pub key_kinds: BTreeMap<String, usize>,
    pub getrandom_calls: u64,
    pub cross_thread_query_builds: usize,
    pub extra_tables_alive: usize,
    pub logical_hash: String,
    pub nontrivial: bool,
    pub perm_patterns: Vec<String>,
}

#[derive(Serialize, Deserialize, Clone, Debug)]
pub struct RunResult {
    pub run_seed: u64,
    pub codec: String,
    pub digest: String,
    pub stats: RunStats,
    pub violations: Vec<Violation>,
    pub violation_count: usize,
    pub sample: Vec<String>,
}

fn classify_violation(q: &Query, expected: &str, got: &str) -> &'static str {
    if got.starts_with("PANIC") {
        return "panic";
    }
    match q {
        Query::Amino { .. } => {
            if expected.starts_with("Ok(") && got.starts_with("Ok(") {
                "forward-wrong-amino"
            } else if expected.starts_with("Ok(") {
                "forward-key-not-found"
            } else if got.starts_with("Ok(") {
                "forward-nonkey-accepted"
            } else {
                "forward-wrong-error"
            }
        }
        Query::Noise { .. } => "noise",
        Query::Sibling { .. } => "sibling-table-wrong",
        Query::Codon { .. } => {
            if expected.starts_with("Ok(") && got.starts_with("Ok(") {
                "reverse-wrong-codon"
            } else if expected.starts_with("Ok(") {
                "reverse-unique-not-returned"
            } else if expected == "Err(AmbiguousCodon)" && got.starts_with("Ok(") {
                "reverse-ambiguity-missed"
            } else if expected == "Err(AmbiguousCodon)" {
                "reverse-ambiguity-wrong-error"
            } else if got.starts_with("Ok(") {
                "reverse-codon-for-unmapped-amino"
            } else {
                "reverse-unmapped-wrong-error"
            }
        }
    }
}

pub fn run(cfg: &Config) -> RunResult {
    std::panic::set_hook(Box::new(|_| {}));
    let mut digest = Digest::default();
    let mut stats = RunStats::default();
    let mut violations = Vec::new();
    let mut violation_count = 0;
    let mut sample = Vec::new();

    let expected: Vec<String> = cfg.queries.iter().map(|q| model_answer(&cfg.entries, q)).collect();
    let keyset: BTreeSet<&str> = cfg.entries.iter().map(|e| e.0.as_str()).collect();
    for q in &cfg.queries {
        match q {
            Query::Amino { codon, .. } => {
                if keyset.contains(codon.as_str()) {
                    stats.key_queries += 1;
                } else {
                    stats.nonkey_queries += 1;
                }
            }
            Query::Codon { .. } => stats.reverse_queries += 1,
            Query::Noise { .. } => stats.noise_queries += 1,
            Query::Sibling { .. } => stats.sibling_tables += 1,
        }
    }
    let mut pre: BTreeMap<&str, usize> = BTreeMap::new();
    for (_, a) in &cfg.entries {
        *pre.entry(a.as_str()).or_insert(0) += 1;
    }
    stats.aminos_by_preimages[0] = AMINO_LETTERS.len() - pre.len();
    for c in pre.values() {
        stats.aminos_by_preimages[(*c).min(3)] += 1;
    }
    stats.entries = cfg.entries.len();
    stats.builds = cfg.builds.len();
    stats.queries = cfg.queries.len();

    // canonical hash of the logical map
    let mut sorted = cfg.entries.clone();
    sorted.sort();
    let mut lh = Digest::default();
    lh.feed(cfg.codec.as_bytes());
    for (c, a) in &sorted {
        lh.feed(c.as_bytes());
        lh.feed(a.as_bytes());
    }
    stats.logical_hash = format!("{:016x}", lh.0);
    let rank: BTreeMap<&str, usize> = sorted.iter().enumerate().map(|(i, e)| (e.0.as_str(), i)).collect();

    let mut orders: BTreeSet<Vec<usize>> = BTreeSet::new();
    let mut first_answers: Option<Vec<String>> = None;

    for (bi, b) in cfg.builds.iter().enumerate() {
        *stats.ctor_kinds.entry(match &b.ctor {
            Ctor::New => "new".to_string(),
            Ctor::WithCapacity { .. } => "with_capacity".to_string(),
            Ctor::Collect => "collect".to_string(),
            Ctor::Array => "array".to_string(),
            Ctor::Extend => "extend".to_string(),
        }).or_insert(0) += 1;
        if matches!(b.ctor, Ctor::New | Ctor::WithCapacity { .. }) {
            for c in &b.churn {
                *stats.churn_kinds.entry(c.name().to_string()).or_insert(0) += 1;
            }
        }
        if b.query_elsewhere {
            stats.cross_thread_query_builds += 1;
        }
        stats.extra_tables_alive += b.extra_tables;
        for k in &b.keys {
            *stats.key_kinds.entry(format!("{:?}", k.kind)).or_insert(0) += 1;
        }
        let cfg2 = cfg.clone();
        let b2 = b.clone();
        let (res, calls) = entropy::with_entropy(b.entropy, move || {
            if cfg2.codec == "dna" {
                build_and_query::<Dna>(&cfg2, &b2)
            } else {
                build_and_query::<Iupac>(&cfg2, &b2)
            }
        });
        stats.getrandom_calls += calls;
        let out = match res {
            Ok(o) => o,
            Err(p) => {
                let msg = panic_text(p);
                if msg.contains("harness:") {
                    eprintln!("HARNESS-ERROR c15 build thread: {msg}");
                    std::process::exit(2);
                }
                violation_count += 1;
                violations.push(Violation {
                    class: "panic-in-from-map".into(),
                    build: bi,
                    query: "from_map".into(),
                    expected: "a table".into(),
                    got: msg,
                    observed_order: None,
                });
                continue;
            }
        };
        digest.feed_u64(bi as u64);
        digest.feed_u64(out.capacity as u64);
        for a in &out.anomalies {
            digest.feed(a.as_bytes());
            violation_count += 1;
            if violations.len() < 8 {
                violations.push(Violation {
                    class: "map-key-identity-broken".into(),
                    build: bi,
                    query: "constructing the HashMap<Seq, Amino> handed to from_map".into(),
                    expected: "equal codons are one key (std HashMap contract, given consistent Hash/Eq/Borrow)".into(),
                    got: a.clone(),
                    observed_order: out.observed_order.clone(),
                });
            }
        }
        if let Some(o) = &out.observed_order {
            for i in o {
                digest.feed_u64(*i as u64);
            }
            orders.insert(o.clone());
            if (2..=5).contains(&cfg.entries.len()) {
                // the permutation pattern relative to the sorted logical map
                let pat: Vec<String> = o.iter().map(|i| rank[cfg.entries[*i].0.as_str()].to_string()).collect();
                stats.perm_patterns.push(format!("{}:{}", cfg.entries.len(), pat.join("")));
            }
        }
        for (qi, got) in out.answers.iter().enumerate() {
            digest.feed(got.as_bytes());
            if *got != expected[qi] {
                violation_count += 1;
                if violations.len() < 8 {
                    violations.push(Violation {
                        class: classify_violation(&cfg.queries[qi], &expected[qi], got).into(),
                        build: bi,
                        query: cfg.queries[qi].describe(),
                        expected: expected[qi].clone(),
                        got: got.clone(),
                        observed_order: out.observed_order.clone(),
                    });
                }
            }
        }
        // cross-order invariant: every physical table of one logical map answers identically
        match &first_answers {
            None => first_answers = Some(out.answers.clone()),
            Some(fa) => {
                for (qi, got) in out.answers.iter().enumerate() {
                    if *got != fa[qi] && *got == expected[qi] && fa[qi] == expected[qi] {
                        unreachable!();
                    }
                    if *got != fa[qi] && violations.len() < 8 && !violations.iter().any(|v| v.class == "cross-order-disagreement") {
                        violations.push(Violation {
                            class: "cross-order-disagreement".into(),
                            build: bi,
                            query: cfg.queries[qi].describe(),
                            expected: fa[qi].clone(),
                            got: got.clone(),
                            observed_order: out.observed_order.clone(),
                        });
                    }
                }
            }
        }
        if bi == 0 {
            for (qi, got) in out.answers.iter().enumerate().take(4) {
                sample.push(format!("{} -> {got}", cfg.queries[qi].describe()));
            }
        }
    }
    stats.distinct_orders = orders.len();
    stats.nontrivial = stats.aminos_by_preimages[2] + stats.aminos_by_preimages[3] > 0 && orders.len() >= 2;

    RunResult {
        run_seed: cfg.run_seed,
        codec: cfg.codec.clone(),
        digest: format!("{:016x}", digest.0),
        stats,
        violations,
        violation_count,
        sample,
    }
}

// ------------------------------------------------------------------------------------------------
// batch: many runs in one worker process

#[derive(Serialize, Deserialize, Clone, Debug, Default)]
pub struct BatchOut {
    pub verif_seed: u64,
    pub from: u64,
    pub to: u64,
    pub runs: u64,
    pub digest: String,
    /// wrapping sum of the per-run digests: independent of how runs are chunked over workers
    pub digest_sum: String,
    pub builds: u64,
    pub queries_answered: u64,
    pub key_queries: u64,
    pub nonkey_queries: u64,
    pub reverse_queries: u64,
    pub noise_queries: u64,
    pub sibling_tables: u64,
    pub getrandom_calls: u64,
    pub cross_thread_query_builds: u64,
    pub extra_tables_alive: u64,
    pub entropy_values: u64,
    pub violating_runs: u64,
    /// the batch stopped early because three of its runs hung or crashed
    pub aborted_after_abnormal_runs: bool,
    pub violations: Vec<serde_json::Value>,
    /// runs per violation class (a run counts once per class)
    pub violation_classes: BTreeMap<String, u64>,
    pub nontrivial_runs: u64,
    pub distinct_nontrivial_local: u64,
    pub distinct_order_pairs_local: u64,
    pub aminos_by_preimages: [u64; 4],
    pub ctor_kinds: BTreeMap<String, u64>,
    pub churn_kinds: BTreeMap<String, u64>,
    pub key_kinds: BTreeMap<String, u64>,
    pub entries_hist: BTreeMap<String, u64>,
    pub codec_runs: BTreeMap<String, u64>,
    pub perm_patterns: BTreeMap<String, Vec<String>>,
    pub sample: Vec<serde_json::Value>,
}

/// Bound on one isolated run; its normal cost is 5 ms to 1 s (huge maps).
const RUN_TIMEOUT_S: u64 = 45;

struct ChildResult {
    stdout: String,
    stderr: String,
    code: Option<i32>,
    timed_out: bool,
}

/// `sim c15-run --seed S` in a fresh process, with a bound: a hung child is killed.
fn run_isolated(exe: &std::path::Path, seed: u64) -> ChildResult {
    use std::io::Read;
    use std::process::{Command, Stdio};
    let mut child = Command::new(exe)
        .args(["c15-run", "--seed", &seed.to_string()])
        .stdin(Stdio::null())
        .stdout(Stdio::piped())
        .stderr(Stdio::piped())
        .spawn()
        .expect("harness: spawn run process");
    let mut so = child.stdout.take().expect("harness: child stdout");
    let mut se = child.stderr.take().expect("harness: child stderr");
    let t_out = std::thread::spawn(move || {
        let mut s = String::new();
        let _ = so.read_to_string(&mut s);
        s
    });
    let t_err = std::thread::spawn(move || {
        let mut s = String::new();
        let _ = se.read_to_string(&mut s);
        s
    });
    let start = std::time::Instant::now();
    let mut timed_out = false;
    let mut naps = 0u32;
    let status = loop {
        match child.try_wait() {
            Ok(Some(st)) => break Some(st),
            Ok(None) => {
                if start.elapsed().as_secs() >= RUN_TIMEOUT_S {
                    timed_out = true;
                    let _ = child.kill();
                    break child.wait().ok();
                }
                naps += 1;
                std::thread::sleep(std::time::Duration::from_micros(if naps < 40 { 250 } else { 2000 }));
            }
            Err(_) => break None,
        }
    };
    ChildResult {
        stdout: t_out.join().unwrap_or_default(),
        stderr: t_err.join().unwrap_or_default(),
        code: status.and_then(|s| s.code()),
        timed_out,
    }
}

pub fn batch(verif_seed: u64, from: u64, to: u64, hashes_path: Option<&str>, isolate: bool) -> BatchOut {
    let mut out = BatchOut { verif_seed, from, to, ..Default::default() };
    let exe = std::env::current_exe().expect("harness: current_exe");
    let mut abnormal = 0u32;
    let mut digest = Digest::default();
    let mut digest_sum: u64 = 0;
    let mut nontrivial: BTreeSet<u64> = BTreeSet::new();
    let mut order_pairs: BTreeSet<u64> = BTreeSet::new();
    let mut perms: BTreeMap<String, BTreeSet<String>> = BTreeMap::new();
    for i in from..to {
        let seed = run_seed(verif_seed, TAG_C15, i);
        let cfg = generate(seed);
        // One simulated run = one fresh process: nothing the code under test keeps process-wide
        // can travel from one run to the next, so a run is a pure function of its seed and its
        // replay (the expanded configuration, executed in a fresh process) is exact.
        let r = if isolate {
            let child = run_isolated(&exe, seed);
            match child.stdout.lines().last().and_then(|l| serde_json::from_str::<RunResult>(l).ok()) {
                Some(r) if !child.timed_out => r,
                _ => {
                    if child.code == Some(2) && !child.timed_out {
                        eprintln!("HARNESS-ERROR c15 run process: {}", child.stderr);
                        std::process::exit(2);
                    }
                    // the simulated process hung (no result within a bound far above its normal
                    // cost) or died (signal, abort): reported as a violation of this run
                    let class = if child.timed_out { "hang" } else { "crash" };
                    out.runs += 1;
                    out.violating_runs += 1;
                    *out.violation_classes.entry(class.to_string()).or_insert(0) += 1;
                    if out.violations.len() < 3 {
                        out.violations.push(serde_json::json!({
                            "index": i, "run_seed": seed, "config": cfg,
                            "violations": [{"class": class, "build": -1, "query": "-", "expected": "every call returns",
                                "got": if child.timed_out {
                                    format!("no result within {RUN_TIMEOUT_S}s (normal cost: milliseconds)")
                                } else {
                                    format!("process ended with status {:?}: {}", child.code,
                                        child.stderr.chars().take(200).collect::<String>())
                                },
                                "observed_order": null}],
                        }));
                    }
                    abnormal += 1;
                    if abnormal >= 3 {
                        // nothing to gain from waiting for hundreds more to time out
                        out.aborted_after_abnormal_runs = true;
                        break;
                    }
                    continue;
                }
            }
        } else {
            run(&cfg)
        };
        out.runs += 1;
        digest.feed(r.digest.as_bytes());
        digest_sum = digest_sum.wrapping_add(u64::from_str_radix(&r.digest, 16).unwrap());
        out.builds += r.stats.builds as u64;
        out.queries_answered += (r.stats.queries * r.stats.builds) as u64;
        out.key_queries += (r.stats.key_queries * r.stats.builds) as u64;
        out.nonkey_queries += (r.stats.nonkey_queries * r.stats.builds) as u64;
        out.reverse_queries += (r.stats.reverse_queries * r.stats.builds) as u64;
        out.noise_queries += (r.stats.noise_queries * r.stats.builds) as u64;
        out.sibling_tables += (r.stats.sibling_tables * r.stats.builds) as u64;
        out.getrandom_calls += r.stats.getrandom_calls;
        out.cross_thread_query_builds += r.stats.cross_thread_query_builds as u64;
        out.extra_tables_alive += r.stats.extra_tables_alive as u64;
        out.entropy_values += r.stats.builds as u64;
        for k in 0..4 {
            out.aminos_by_preimages[k] += r.stats.aminos_by_preimages[k] as u64;
        }
        for (k, v) in &r.stats.ctor_kinds {
            *out.ctor_kinds.entry(k.clone()).or_insert(0) += *v as u64;
        }
        for (k, v) in &r.stats.churn_kinds {
            *out.churn_kinds.entry(k.clone()).or_insert(0) += *v as u64;
        }
        for (k, v) in &r.stats.key_kinds {
            *out.key_kinds.entry(k.clone()).or_insert(0) += *v as u64;
        }
        *out.entries_hist.entry(format!("{:02}", r.stats.entries)).or_insert(0) += 1;
        *out.codec_runs.entry(r.codec.clone()).or_insert(0) += 1;
        let lh = u64::from_str_radix(&r.stats.logical_hash, 16).unwrap();
        if r.stats.nontrivial {
            out.nontrivial_runs += 1;
            nontrivial.insert(lh);
        }
        for p in &r.stats.perm_patterns {
            let (n, pat) = p.split_once(':').unwrap();
            perms.entry(n.to_string()).or_default().insert(pat.to_string());
            let mut d = Digest::default();
            d.feed_u64(lh);
            d.feed(pat.as_bytes());
            order_pairs.insert(d.0);
        }
        if r.violation_count > 0 {
            let classes: BTreeSet<&str> = r.violations.iter().map(|v| v.class.as_str()).collect();
            for c in classes {
                *out.violation_classes.entry(c.to_string()).or_insert(0) += 1;
            }
            out.violating_runs += 1;
            if out.violations.len() < 3 {
                out.violations.push(serde_json::json!({
                    "index": i,
                    "run_seed": seed,
                    "violations": r.violations,
                    "config": cfg,
                }));
            }
        }
        if out.sample.len() < 3 && r.stats.nontrivial && r.stats.entries <= 6 {
            out.sample.push(serde_json::json!({
                "index": i,
                "run_seed": seed,
                "codec": cfg.codec,
                "entries": cfg.entries,
                "builds": cfg.builds.iter().map(|b| serde_json::json!({"entropy": b.entropy, "ctor": b.ctor, "order": b.order, "churn": b.churn})).collect::<Vec<_>>(),
                "distinct_orders_observed": r.stats.distinct_orders,
                "queries": r.stats.queries,
                "answers_sample": r.sample,
            }));
        }
    }
    out.digest = format!("{:016x}", digest.0);
    out.digest_sum = format!("{digest_sum:016x}");
    out.distinct_nontrivial_local = nontrivial.len() as u64;
    out.distinct_order_pairs_local = order_pairs.len() as u64;
    // for maps of up to four entries the set of patterns is small: report it in full
    for (n, set) in perms {
        if n.as_str() <= "4" {
            out.perm_patterns.insert(n, set.into_iter().collect());
        } else {
            out.perm_patterns.insert(n, vec![format!("count={}", set.len())]);
        }
    }
    if let Some(path) = hashes_path {
        let mut bytes = Vec::with_capacity(nontrivial.len() * 8);
        for h in &nontrivial {
            bytes.extend_from_slice(&h.to_le_bytes());
        }
        if let Err(e) = std::fs::write(path, bytes) {
            eprintln!("HARNESS-ERROR cannot write {path}: {e}");
            std::process::exit(2);
        }
    }
    out
}

// ------------------------------------------------------------------------------------------------
// Concurrent scenario: ONE table shared by several threads (`CodonTable` is `Sync`), each making
// its own lookups at the same time. Executed under a scheduler the simulator owns: Miri (real
// threads, seeded preemption, race detector) or shuttle (Engine S, scheduling points at every
// synchronisation operation of the transformed source). The model is the same association list.

pub mod conc {
    use super::*;
    use std::sync::atomic::{AtomicUsize, Ordering};
    use std::sync::Arc;

    /// Relaxed on purpose: logging must not add happens-before edges.
    static STAMP: AtomicUsize = AtomicUsize::new(0);

    pub struct Plan {
        pub codec: &'static str,
        pub entries: Vec<(String, String)>,
        pub threads: Vec<Vec<Query>>,
    }

    pub fn plan(seed: u64, threads_override: Option<usize>, ops_override: Option<usize>) -> Plan {
        let mut rng = Rng::new(seed ^ 0xC15C_0C0C);
        let codec = if rng.chance(1, 2) { "dna" } else { "iupac" };
        let alpha = alphabet(codec);
        let per_word = if codec == "dna" { 32 } else { 16 };
        let len = rng.range(1, 3);
        let mixed = rng.chance(1, 4);
        let n = rng.range(2, 6);
        let pool: Vec<u8> = {
            let mut a = AMINO_LETTERS.to_vec();
            rng.shuffle(&mut a);
            a.truncate(rng.range(2, 4));
            a
        };
        let mut entries: Vec<(String, String)> = Vec::new();
        let mut tries = 0;
        while entries.len() < n && tries < 200 {
            tries += 1;
            let l = if mixed { rng.range(1, 3) } else { len };
            let c = rand_codon(&mut rng, alpha, l);
            if entries.iter().all(|e| e.0 != c) {
                let a = *rng.pick(&pool);
                entries.push((c, (a as char).to_string()));
            }
        }
        let max_t = crate::c14::miri_scenario::MAX_THREADS.load(Ordering::Relaxed).max(4);
        let t_full = if max_t > 4 && rng.chance(1, 3) { 5 + rng.below(max_t - 4) } else { 2 + rng.below(3) };
        let mut threads = Vec::new();
        for _ in 0..max_t {
            let k = ops_override.unwrap_or(3 + rng.below(4)).max(1).min(8);
            let mut qs = Vec::new();
            for _ in 0..k {
                qs.push(match rng.below(8) {
                    0..=4 => {
                        // a key (threads prefer different keys, so per-table caches get thrashed)
                        let e = &entries[rng.below(entries.len())];
                        gen_query(&mut rng, e.0.clone(), per_word)
                    }
                    5 => {
                        let e = &entries[rng.below(entries.len())];
                        let zero = alpha[if codec == "dna" { 0 } else { 15 }] as char;
                        gen_query(&mut rng, format!("{}{zero}", e.0), per_word)
                    }
                    6 => {
                        let c = rand_codon(&mut rng, alpha, len);
                        gen_query(&mut rng, c, per_word)
                    }
                    _ => Query::Codon { amino: (*rng.pick(&pool) as char).to_string() },
                });
            }
            threads.push(qs);
        }
        threads.truncate(threads_override.unwrap_or(t_full).max(1).min(max_t));
        Plan { codec, entries, threads }
    }

    struct Ev {
        thread: usize,
        idx: usize,
        start: usize,
        end: usize,
        q: Query,
        got: String,
    }

    fn answer<A: CodonCodec>(table: &CodonTable<A, Amino>, q: &Query, alpha: &[u8]) -> String {
        let got = catch_unwind(AssertUnwindSafe(|| match q {
            Query::Amino { codon, pres, off, tail, fill } => {
                ask::<A, _>(codon, pres, *off, *tail, *fill, alpha, |s| classify(&table.try_to_amino(s)))
            }
            Query::Codon { amino: a } => {
                classify_codon(&table.try_to_codon(Amino::try_from_ascii(a.as_bytes()[0]).expect("harness: amino letter")))
            }
            Query::Noise { kind, arg } => {
                let _ = crate::noise::run(kind, *arg);
                "noise".into()
            }
            Query::Sibling { entries, codons, aminos } => run_sibling::<A>(entries, codons, aminos),
        }));
        match (q, got) {
            (Query::Noise { .. }, _) => "noise".into(),
            (_, Ok(s)) => s,
            (_, Err(p)) => panic_text(p),
        }
    }

    fn run_typed<A: CodonCodec>(p: &Plan) -> i32 {
        let alpha = alphabet(p.codec);
        let mut map: HashMap<Seq<A>, Amino> = HashMap::new();
        for (c, a) in &p.entries {
            map.insert(
                Seq::<A>::try_from(c.as_str()).expect("harness: parse key"),
                Amino::try_from_ascii(a.as_bytes()[0]).expect("harness: amino letter"),
            );
        }
        let table: Arc<CodonTable<A, Amino>> = Arc::new(CodonTable::from_map(map));
        let mut handles = Vec::new();
        for (ti, qs) in p.threads.iter().enumerate() {
            let table = Arc::clone(&table);
            let qs = qs.clone();
            let alpha: Vec<u8> = alpha.to_vec();
            handles.push(crate::rt::thread::spawn(move || {
                let mut evs = Vec::new();
                for (idx, q) in qs.into_iter().enumerate() {
                    let start = STAMP.fetch_add(1, Ordering::Relaxed);
                    let got = answer::<A>(&table, &q, &alpha);
                    let end = STAMP.fetch_add(1, Ordering::Relaxed);
                    evs.push(Ev { thread: ti, idx, start, end, q, got });
                }
                evs
            }));
        }
        let mut evs: Vec<Ev> = Vec::new();
        let mut violations = 0;
        for h in handles {
            match h.join() {
                Ok(v) => evs.extend(v),
                Err(_) => {
                    violations += 1;
                    println!("SIM-VIOLATION class=thread-panicked op=- expected=join got=panic");
                }
            }
        }
        evs.sort_by_key(|e| e.start);
        let mut digest = Digest::default();
        let mut marks: Vec<(usize, String)> = Vec::new();
        let mut any_overlap = false;
        for a in &evs {
            marks.push((a.start, format!("t{}s{}", a.thread, a.idx)));
            marks.push((a.end, format!("t{}e{}", a.thread, a.idx)));
            for b in &evs {
                if a.thread < b.thread && a.start < b.end && b.start < a.end {
                    any_overlap = true;
                }
            }
        }
        marks.sort();
        for e in &evs {
            let want = model_answer(&p.entries, &e.q);
            println!("SIM-EV start={} end={} t{} #{} {} -> {}", e.start, e.end, e.thread, e.idx, e.q.describe(), e.got);
            digest.feed_u64(e.start as u64);
            digest.feed_u64(e.end as u64);
            digest.feed(e.q.describe().as_bytes());
            digest.feed(e.got.as_bytes());
            if e.got != want {
                violations += 1;
                println!(
                    "SIM-VIOLATION class={} op={} expected={} got={}",
                    classify_violation(&e.q, &want, &e.got),
                    e.q.describe().replace(' ', "_"),
                    want.replace(' ', "_"),
                    e.got.replace(' ', "_")
                );
            }
        }
        // afterwards, alone: every query once more (a wrong pair left behind in shared state shows here)
        for e in &evs {
            let want = model_answer(&p.entries, &e.q);
            let again = answer::<A>(&table, &e.q, alpha);
            digest.feed(again.as_bytes());
            if again != want {
                violations += 1;
                println!(
                    "SIM-VIOLATION class={}-after-quiescence op={} expected={} got={}",
                    classify_violation(&e.q, &want, &again),
                    e.q.describe().replace(' ', "_"),
                    want.replace(' ', "_"),
                    again.replace(' ', "_")
                );
            }
        }
        let sig: Vec<String> = marks.into_iter().map(|m| m.1).collect();
        println!("SIM-SIG {}", sig.join(","));
        println!("SIM-OVERLAP first_ops_concurrent={any_overlap} any_ops_concurrent={any_overlap}");
        println!("SIM-END digest={:016x} events={} violations={violations}", digest.0, evs.len());
        i32::from(violations > 0)
    }

    /// Returns the process exit code (0 held, 1 violation).
    pub fn main(seed: u64, threads_override: Option<usize>, ops_override: Option<usize>) -> i32 {
        std::panic::set_hook(Box::new(|_| {}));
        let p = plan(seed, threads_override, ops_override);
        println!("SIM-START c15-conc seed={seed} threads={}", p.threads.len());
        println!("SIM-PLAN codec={} entries={:?}", p.codec, p.entries);
        for (i, qs) in p.threads.iter().enumerate() {
            let d: Vec<String> = qs.iter().map(Query::describe).collect();
            println!("SIM-PLAN t{i} ops=[{}]", d.join("; "));
        }
        if p.codec == "dna" {
            run_typed::<Dna>(&p)
        } else {
            run_typed::<Iupac>(&p)
        }
    }
}
