//! The entropy seam: std looks `getrandom` up as a weak libc symbol (so that it can be interposed —
//! `library/std/src/sys/random/linux.rs`), and `RandomState::new()` draws its per-thread SipHash
//! keys through it exactly once per thread. Defining the symbol in this binary puts the only OS
//! entropy the code under test consumes behind the simulator's PRNG: the bytes returned are a pure
//! function of `ENTROPY`, which the simulator sets before it starts each run thread.
//!
//! Under Miri the symbol is not defined (Miri rejects a symbol that clashes with its own shim):
//! there Miri's own seeded RNG answers `getrandom`, which is just as deterministic per `-Zmiri-seed`.

use std::collections::HashMap;
use std::sync::atomic::{AtomicU64, Ordering};

use crate::prng::splitmix64;

pub static ENTROPY: AtomicU64 = AtomicU64::new(0);
pub static CALLS: AtomicU64 = AtomicU64::new(0);
pub static BYTES: AtomicU64 = AtomicU64::new(0);

/// # Safety
/// Called by libstd / libc with a writable buffer of `buflen` bytes.
#[cfg(not(miri))]
#[no_mangle]
pub unsafe extern "C" fn getrandom(buf: *mut core::ffi::c_void, buflen: usize, _flags: u32) -> isize {
    CALLS.fetch_add(1, Ordering::SeqCst);
    BYTES.fetch_add(buflen as u64, Ordering::SeqCst);
    let mut x = ENTROPY.load(Ordering::SeqCst);
    let out = buf.cast::<u8>();
    let mut i = 0;
    while i < buflen {
        x = splitmix64(x);
        let bytes = x.to_le_bytes();
        let mut j = 0;
        while j < 8 && i < buflen {
            *out.add(i) = bytes[j];
            i += 1;
            j += 1;
        }
    }
    buflen as isize
}

pub fn set(seed: u64) {
    ENTROPY.store(seed, Ordering::SeqCst);
}

pub fn calls() -> u64 {
    CALLS.load(Ordering::SeqCst)
}

/// Run `f` on a fresh thread whose `RandomState` keys derive from `seed`. Returns f's result and
/// the number of `getrandom` calls the thread made.
pub fn with_entropy<R: Send + 'static>(seed: u64, f: impl FnOnce() -> R + Send + 'static) -> (std::thread::Result<R>, u64) {
    set(seed);
    let before = calls();
    let r = std::thread::Builder::new()
        .stack_size(1 << 20)
        .spawn(f)
        .expect("harness: spawn run thread")
        .join();
    (r, calls() - before)
}

fn control_order(seed: u64) -> (Vec<u32>, u64) {
    let (r, calls) = with_entropy(seed, || {
        let mut m: HashMap<u32, u32> = HashMap::new();
        for i in 0..24 {
            m.insert(i * 7 + 1, i);
        }
        m.keys().copied().collect::<Vec<u32>>()
    });
    (r.expect("harness: control thread"), calls)
}

/// Seam self-check (DESIGN §5.3). A failure is a harness error, never a violation and never a
/// silent pass.
pub fn self_check() -> Result<String, String> {
    let (a1, c1) = control_order(0x1111);
    let (a2, c2) = control_order(0x1111);
    if c1 != 1 || c2 != 1 {
        return Err(format!(
            "entropy seam: expected exactly one interposed getrandom call per fresh thread, saw {c1} and {c2} \
             (std no longer routes RandomState keys through the weak getrandom symbol?)"
        ));
    }
    if a1 != a2 {
        return Err("entropy seam: same entropy value gave two different HashMap iteration orders".into());
    }
    let mut orders = std::collections::BTreeSet::new();
    for s in 0..64u64 {
        orders.insert(control_order(0x9000 + s).0);
    }
    if orders.len() < 2 {
        return Err("entropy seam: 64 entropy values gave one HashMap iteration order".into());
    }
    Ok(format!(
        "{{\"getrandom_calls_per_thread\":1,\"same_seed_same_order\":true,\"distinct_orders_over_64_seeds\":{}}}",
        orders.len()
    ))
}
