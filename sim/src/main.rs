#![recursion_limit = "512"]
//! Deterministic simulator for jeff-k/bio-seq properties C14 and C15 (see /verif/DESIGN.md).
//! Exit codes: 0 = held, 1 = violation found in this run, 2 = harness error.
mod c14;
mod c15;
mod entropy;
mod noise;
mod oracle;
mod prng;

/// The thread implementation the concurrent scenarios run on: std's here (natively and under
/// Miri); the shuttle engine substitutes shuttle's.
mod rt {
    pub use std::thread;
}

use std::collections::HashMap;

fn args_map(args: &[String]) -> HashMap<String, String> {
    let mut m = HashMap::new();
    let mut i = 0;
    while i < args.len() {
        if let Some(k) = args[i].strip_prefix("--") {
            if i + 1 < args.len() && !args[i + 1].starts_with("--") {
                m.insert(k.to_string(), args[i + 1].clone());
                i += 2;
            } else {
                m.insert(k.to_string(), "true".to_string());
                i += 1;
            }
        } else {
            i += 1;
        }
    }
    m
}

fn num(m: &HashMap<String, String>, k: &str) -> Option<u64> {
    m.get(k).map(|v| v.parse::<u64>().unwrap_or_else(|_| harness_error(&format!("bad --{k} {v}"))))
}

#[cfg(not(miri))]
fn seed_of(m: &HashMap<String, String>, tag: u64) -> u64 {
    if let Some(s) = num(m, "seed") {
        return s;
    }
    match (num(m, "verif-seed"), num(m, "index")) {
        (Some(vs), Some(i)) => prng::run_seed(vs, tag, i),
        _ => harness_error("need --seed, or --verif-seed and --index, or --config"),
    }
}

fn harness_error(msg: &str) -> ! {
    eprintln!("HARNESS-ERROR {msg}");
    std::process::exit(2);
}

fn main() {
    let argv: Vec<String> = std::env::args().collect();
    let cmd = argv.get(1).map(String::as_str).unwrap_or("");
    let m = args_map(&argv[2.min(argv.len())..]);
    // The oracle's shape self-check enumerates the whole domain; under Miri (about 10^4 times
    // slower) it is skipped: the driver always runs the native binary, which performs it, first.
    #[cfg(not(miri))]
    if let Err(e) = oracle::self_check() {
        harness_error(&e);
    }
    match cmd {
        "oracle-check" => {
            let (e, a, g) = oracle::domain_counts();
            println!("{{\"exact\":{e},\"ambiguous\":{a},\"gap\":{g}}}");
        }
        "c14-miri-seeds" => {
            // derive (run_seed, miri_seed, preemption class) for runs from..to; printed for the driver
            let vs = num(&m, "verif-seed").unwrap_or_else(|| harness_error("--verif-seed"));
            let from = num(&m, "from").unwrap_or(0);
            let to = num(&m, "to").unwrap_or_else(|| harness_error("--to"));
            let tag = if m.get("prop").map(String::as_str) == Some("c15") { prng::TAG_C15M } else { prng::TAG_C14M };
            for i in from..to {
                let rs = prng::run_seed(vs, tag, i);
                let mut r = prng::Rng::new(rs ^ 0x4d49_5249);
                let miri_seed = r.next_u64() % 1_000_000;
                let rate = ["0.01", "0.05", "0.2", "0.5"][r.below(4)];
                println!("{i} {rs} {miri_seed} {rate}");
            }
        }
        "c14-miri" => {
            let seed = num(&m, "seed").unwrap_or_else(|| harness_error("--seed"));
            let code = c14::miri_scenario::main(
                seed,
                num(&m, "threads").map(|x| x as usize),
                num(&m, "ops").map(|x| x as usize),
            );
            std::process::exit(code);
        }
        "c15-conc" => {
            let seed = num(&m, "seed").unwrap_or_else(|| harness_error("--seed"));
            let code = c15::conc::main(
                seed,
                num(&m, "threads").map(|x| x as usize),
                num(&m, "ops").map(|x| x as usize),
            );
            std::process::exit(code);
        }
        #[cfg(not(miri))]
        "c14-gen" => {
            let seed = seed_of(&m, prng::TAG_C14N);
            println!("{}", serde_json::to_string(&c14::generate(seed)).unwrap());
        }
        #[cfg(not(miri))]
        "c14-run" => {
            let cfg = if let Some(path) = m.get("config") {
                let text = std::fs::read_to_string(path).unwrap_or_else(|e| harness_error(&format!("{path}: {e}")));
                serde_json::from_str::<c14::Config>(&text).unwrap_or_else(|e| harness_error(&format!("{path}: {e}")))
            } else {
                c14::generate(seed_of(&m, prng::TAG_C14N))
            };
            let r = c14::run(&cfg);
            println!("{}", serde_json::to_string(&r).unwrap());
            std::process::exit(i32::from(r.violation_count > 0));
        }
        #[cfg(not(miri))]
        "seam-check" => match entropy::self_check() {
            Ok(s) => println!("{s}"),
            Err(e) => harness_error(&e),
        },
        #[cfg(not(miri))]
        "c15-gen" => {
            let seed = seed_of(&m, prng::TAG_C15);
            println!("{}", serde_json::to_string(&c15::generate(seed)).unwrap());
        }
        #[cfg(not(miri))]
        "c15-run" => {
            let cfg = if let Some(path) = m.get("config") {
                let text = std::fs::read_to_string(path).unwrap_or_else(|e| harness_error(&format!("{path}: {e}")));
                serde_json::from_str::<c15::Config>(&text).unwrap_or_else(|e| harness_error(&format!("{path}: {e}")))
            } else {
                c15::generate(seed_of(&m, prng::TAG_C15))
            };
            let r = c15::run(&cfg);
            println!("{}", serde_json::to_string(&r).unwrap());
            std::process::exit(i32::from(r.violation_count > 0));
        }
        #[cfg(not(miri))]
        "c15-batch" => {
            let vs = num(&m, "verif-seed").unwrap_or_else(|| harness_error("--verif-seed"));
            let from = num(&m, "from").unwrap_or(0);
            let to = num(&m, "to").unwrap_or_else(|| harness_error("--to"));
            // default: one fresh process per run; --in-process is for measuring the difference only
            let out = c15::batch(vs, from, to, m.get("hashes").map(String::as_str), !m.contains_key("in-process"));
            println!("{}", serde_json::to_string(&out).unwrap());
            std::process::exit(i32::from(out.violating_runs > 0));
        }
        _ => harness_error("usage: sim <c14-run|c14-gen|c14-miri|c15-run|c15-gen|c15-batch|seam-check|oracle-check> ..."),
    }
}
