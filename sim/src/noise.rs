//! "Noise" operations: what the *rest of a program* does with the library between two translation
//! calls on the same thread — motif search with patterns longer than a codon, set operations,
//! reverse/complement, k-mer iteration, parsing and printing, editing, hashing, the plain DNA
//! table, and other codon tables alive at the same time. None of it is judged (these operations
//! belong to other properties); it is environment: if the translation paths share hidden state
//! with any of them (scratch buffers, thread-local or process-wide caches), this is what disturbs it.

use std::collections::{HashMap, HashSet};

use bio_seq::prelude::*;
use bio_seq::translation::{CodonTable, PartialTranslationTable, TranslationTable, STANDARD};

use crate::prng::Rng;

pub const KINDS: &[&str] = &[
    "contains-long",
    "contains-static",
    "bitops",
    "revcomp",
    "kmers",
    "parse-print",
    "edit",
    "hash-eq",
    "dna-table",
    "other-table",
];

fn iupac_seq(rng: &mut Rng, n: usize) -> Seq<Iupac> {
    const L: &[u8; 16] = b"ACGTRYSWKMBDHVN-";
    (0..n).map(|_| Iupac::try_from_ascii(L[rng.below(16)]).unwrap()).collect()
}

fn dna_seq(rng: &mut Rng, n: usize) -> Seq<Dna> {
    const L: &[u8; 4] = b"ACGT";
    (0..n).map(|_| Dna::try_from_ascii(L[rng.below(4)]).unwrap()).collect()
}

/// Execute one noise operation. Returns a small checksum so that the work cannot be optimised
/// away and so that the event log stays deterministic.
pub fn run(kind: &str, arg: u64) -> u64 {
    let mut rng = Rng::new(arg);
    let mut acc: u64 = 0;
    match kind {
        "contains-long" => {
            // motif search with patterns of 4..40 symbols, as in the codec::iupac module docs
            let plen = rng.range(4, 40);
            let pattern = iupac_seq(&mut rng, plen);
            let tlen = plen + rng.below(60);
            let text = iupac_seq(&mut rng, tlen);
            for w in text.windows(plen) {
                acc += u64::from(pattern.contains(w));
                acc += u64::from(pattern[..].contains(w));
            }
            // and mismatched lengths
            acc += u64::from(pattern.contains(&text[..plen.min(text.len()) - 1]));
        }
        "contains-static" => {
            let site = iupac!("GAATTC");
            let tata = iupac!("TATAWAWR");
            let tlen = 40 + rng.below(40);
            let text = iupac_seq(&mut rng, tlen);
            for w in text.windows(6) {
                acc += u64::from(site.contains(w));
            }
            for w in text.windows(8) {
                acc += u64::from(tata.contains(w));
            }
        }
        "bitops" => {
            let n = rng.range(1, 100);
            let a = iupac_seq(&mut rng, n);
            let b = iupac_seq(&mut rng, n);
            let o: Seq<Iupac> = &a[..] | &b[..];
            let x: Seq<Iupac> = &a[..] & &b[..];
            acc += (o.len() + x.len()) as u64 + u64::from(o == x);
        }
        "revcomp" => {
            let n = rng.range(1, 120);
            let a = iupac_seq(&mut rng, n);
            let d = dna_seq(&mut rng, n);
            let off = rng.below(n);
            acc += a[off..].to_revcomp().len() as u64;
            acc += d[off..].to_rev().len() as u64;
            acc += d.to_comp().len() as u64;
            let mut m = a.clone();
            m.rev();
            m.comp();
            acc += u64::from(m == a.to_revcomp());
        }
        "kmers" => {
            let dlen = 40 + rng.below(100);
            let d = dna_seq(&mut rng, dlen);
            let mut set: HashSet<Kmer<Dna, 8>> = HashSet::new();
            for k in d.kmers::<8>() {
                set.insert(k);
            }
            acc += set.len() as u64;
            acc += d.windows(5).count() as u64 + d.chunks(7).count() as u64;
            if let Some(m) = d.kmers::<11>().min() {
                acc += usize::from(&m) as u64 & 0xff;
            }
        }
        "parse-print" => {
            let alen = rng.range(0, 200);
            let a = iupac_seq(&mut rng, alen);
            let s = a.to_string();
            let back = Seq::<Iupac>::try_from(s.as_str()).unwrap();
            acc += u64::from(back == a) + s.len() as u64;
            acc += u64::from(Seq::<Dna>::try_from("ACGTN").is_err());
        }
        "edit" => {
            let (alen, blen) = (rng.range(1, 80), rng.range(1, 40));
            let mut a = iupac_seq(&mut rng, alen);
            let b = iupac_seq(&mut rng, blen);
            let at = rng.below(a.len() + 1);
            a.insert(at, &b);
            a.prepend(&b[..b.len() / 2]);
            a.append(&b);
            let cut = rng.below(a.len());
            a.remove(cut..(cut + 3).min(a.len()));
            a.truncate(a.len() / 2);
            a.push(Iupac::N);
            acc += a.len() as u64;
        }
        "hash-eq" => {
            let mut set: HashSet<Seq<Iupac>> = HashSet::new();
            let text = iupac_seq(&mut rng, 64);
            for l in [1usize, 2, 3, 4, 5, 8, 16, 17] {
                for w in text.windows(l).take(8) {
                    set.insert(w.to_owned());
                }
            }
            for w in text.windows(3) {
                acc += u64::from(set.contains(w));
            }
        }
        "dna-table" => {
            let dlen = 30 + rng.below(30);
            let d = dna_seq(&mut rng, dlen);
            for w in d.windows(3) {
                acc += u64::from(STANDARD.to_amino(w).to_bits());
            }
            acc += u64::from(TranslationTable::<Dna, Amino>::to_codon(&STANDARD, Amino::M).is_err());
        }
        "other-table" => {
            // another codon table alive (and queried) on this thread at the same time
            let mut m: HashMap<Seq<Dna>, Amino> = HashMap::new();
            let aminos = [Amino::A, Amino::C, Amino::D, Amino::E];
            for _ in 0..rng.range(1, 12) {
                let l = rng.range(1, 4);
                let k = dna_seq(&mut rng, l);
                m.insert(k, aminos[rng.below(4)]);
            }
            let t = CodonTable::from_map(m);
            let d = dna_seq(&mut rng, 24);
            for l in 1..=4usize {
                for w in d.windows(l) {
                    acc += u64::from(t.try_to_amino(w).is_ok());
                }
            }
            for a in aminos {
                acc += u64::from(t.try_to_codon(a).is_ok());
            }
        }
        _ => panic!("harness: unknown noise kind {kind}"),
    }
    acc
}
