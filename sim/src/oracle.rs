//! Reference model for C14, written from the specification and sharing no table with bio-seq:
//! NCBI translation table 1 as the canonical 64-letter string (base order T, C, A, G) plus the
//! IUPAC nucleotide ambiguity codes as sets of bases.
//!
//! Everything here works on ASCII letters; the harness converts to and from bio-seq's types with
//! the codecs' own `try_from_ascii` / `to_char`.

/// NCBI transl_table=1, "AAs" line; position = 16*i(b1) + 4*i(b2) + i(b3), base order TCAG.
pub const NCBI1: &[u8; 64] = b"FFLLSSSSYY**CC*WLLLLPPPPHHQQRRRRIIIMTTTTNNKKSSRRVVVVAAAADDEEGGGG";
const BASE_ORDER: &[u8; 4] = b"TCAG";

/// The sixteen IUPAC symbols bio-seq's 4-bit codec can hold ('-' is the gap / empty set).
pub const IUPAC_LETTERS: &[u8; 16] = b"ACGTRYSWKMBDHVN-";
/// The 21 symbols of the amino codec ('*' = stop).
pub const AMINO_LETTERS: &[u8; 21] = b"ACDEFGHIKLMNPQRSTVWY*";

/// Set of concrete bases for an IUPAC letter, as a 4-bit mask over BASES = "ACGT"
/// (bit 0 = A, bit 1 = C, bit 2 = G, bit 3 = T). This numbering is the oracle's own and
/// deliberately not bio-seq's bit layout.
pub fn base_set(letter: u8) -> u8 {
    const A: u8 = 1;
    const C: u8 = 2;
    const G: u8 = 4;
    const T: u8 = 8;
    match letter {
        b'A' => A,
        b'C' => C,
        b'G' => G,
        b'T' => T,
        b'R' => A | G,
        b'Y' => C | T,
        b'S' => C | G,
        b'W' => A | T,
        b'K' => G | T,
        b'M' => A | C,
        b'B' => C | G | T,
        b'D' => A | G | T,
        b'H' => A | C | T,
        b'V' => A | C | G,
        b'N' => A | C | G | T,
        b'-' => 0,
        _ => panic!("oracle: not an IUPAC letter: {letter}"),
    }
}

const BASES: &[u8; 4] = b"ACGT";

pub fn letter_of_set(set: u8) -> u8 {
    for l in IUPAC_LETTERS {
        if base_set(*l) == set {
            return *l;
        }
    }
    unreachable!()
}

/// Standard genetic code for a concrete codon of A/C/G/T letters.
pub fn code(b1: u8, b2: u8, b3: u8) -> u8 {
    let ix = |b: u8| BASE_ORDER.iter().position(|x| *x == b).expect("concrete base");
    NCBI1[16 * ix(b1) + 4 * ix(b2) + ix(b3)]
}

/// Concrete expansion of a three-letter IUPAC codon.
pub fn expand(codon: &[u8; 3]) -> Vec<[u8; 3]> {
    let mut out = Vec::new();
    for (i1, b1) in BASES.iter().enumerate() {
        if base_set(codon[0]) & (1 << i1) == 0 {
            continue;
        }
        for (i2, b2) in BASES.iter().enumerate() {
            if base_set(codon[1]) & (1 << i2) == 0 {
                continue;
            }
            for (i3, b3) in BASES.iter().enumerate() {
                if base_set(codon[2]) & (1 << i3) == 0 {
                    continue;
                }
                out.push([*b1, *b2, *b3]);
            }
        }
    }
    out
}

#[derive(Clone, Copy, Debug, PartialEq, Eq)]
pub enum ExpectAmino {
    /// gap-free codon whose whole expansion codes for this amino letter
    Exactly(u8),
    /// gap-free codon whose expansion codes for two or more amino acids
    Ambiguous,
    /// codon with a gap: the property only requires soundness / no panic
    /// (an Ok answer is vacuously sound: no concrete codon matches), so any non-panicking
    /// result is accepted
    GapUnconstrained,
}

pub fn expect_amino(codon: &[u8; 3]) -> ExpectAmino {
    if codon.iter().any(|c| *c == b'-') {
        return ExpectAmino::GapUnconstrained;
    }
    let e = expand(codon);
    let first = code(e[0][0], e[0][1], e[0][2]);
    if e.iter().all(|c| code(c[0], c[1], c[2]) == first) {
        ExpectAmino::Exactly(first)
    } else {
        ExpectAmino::Ambiguous
    }
}

/// The reverse translation demanded by the property: `Some(codon)` when the set of concrete
/// codons coding for `amino` is exactly a Cartesian product of per-position base sets (then the
/// IUPAC codon naming those sets is the unique answer), `None` when it is not (ambiguous).
pub fn expect_codon(amino: u8) -> Option<[u8; 3]> {
    let mut members: Vec<[u8; 3]> = Vec::new();
    let mut proj = [0u8; 3];
    for (i1, b1) in BASES.iter().enumerate() {
        for (i2, b2) in BASES.iter().enumerate() {
            for (i3, b3) in BASES.iter().enumerate() {
                if code(*b1, *b2, *b3) == amino {
                    members.push([*b1, *b2, *b3]);
                    proj[0] |= 1 << i1;
                    proj[1] |= 1 << i2;
                    proj[2] |= 1 << i3;
                }
            }
        }
    }
    assert!(!members.is_empty(), "oracle: amino {} has no codon", amino as char);
    let product = proj.iter().map(|p| p.count_ones() as usize).product::<usize>();
    if product == members.len() {
        Some([letter_of_set(proj[0]), letter_of_set(proj[1]), letter_of_set(proj[2])])
    } else {
        None
    }
}

/// Shape self-check of the oracle. A failure is a harness error (exit 2), never a violation.
pub fn self_check() -> Result<(), String> {
    let stops = NCBI1.iter().filter(|c| **c == b'*').count();
    if stops != 3 {
        return Err(format!("oracle: {stops} stop codons, want 3"));
    }
    let mut classes: Vec<u8> = NCBI1.to_vec();
    classes.sort_unstable();
    classes.dedup();
    if classes.len() != 21 {
        return Err(format!("oracle: {} amino classes, want 21", classes.len()));
    }
    let mut want = AMINO_LETTERS.to_vec();
    want.sort_unstable();
    if classes != want {
        return Err("oracle: amino letters differ from the codec's 21".into());
    }
    // spot anchors from the genetic code that every textbook lists
    let anchors: [(&[u8; 3], u8); 8] = [
        (b"ATG", b'M'),
        (b"TGG", b'W'),
        (b"TAA", b'*'),
        (b"TAG", b'*'),
        (b"TGA", b'*'),
        (b"GCA", b'A'),
        (b"AGC", b'S'),
        (b"CTA", b'L'),
    ];
    for (c, a) in anchors {
        if code(c[0], c[1], c[2]) != a {
            return Err(format!("oracle: anchor {} != {}", String::from_utf8_lossy(c), a as char));
        }
    }
    // reverse translation: exactly L, R, S and stop are not Cartesian products
    let amb: Vec<u8> = AMINO_LETTERS.iter().copied().filter(|a| expect_codon(*a).is_none()).collect();
    if amb != b"LRS*" {
        return Err(format!("oracle: ambiguous reverse set {:?}", String::from_utf8_lossy(&amb)));
    }
    if expect_codon(b'I') != Some(*b"ATH") || expect_codon(b'M') != Some(*b"ATG") {
        return Err("oracle: reverse anchors".into());
    }
    // counts over the complete domain
    let mut exact = 0;
    let mut ambiguous = 0;
    let mut gap = 0;
    for a in IUPAC_LETTERS {
        for b in IUPAC_LETTERS {
            for c in IUPAC_LETTERS {
                match expect_amino(&[*a, *b, *c]) {
                    ExpectAmino::Exactly(_) => exact += 1,
                    ExpectAmino::Ambiguous => ambiguous += 1,
                    ExpectAmino::GapUnconstrained => gap += 1,
                }
            }
        }
    }
    if exact + ambiguous != 3375 || gap != 721 {
        return Err(format!("oracle: domain split {exact}+{ambiguous}+{gap}"));
    }
    Ok(())
}

pub fn domain_counts() -> (usize, usize, usize) {
    let mut exact = 0;
    let mut ambiguous = 0;
    let mut gap = 0;
    for a in IUPAC_LETTERS {
        for b in IUPAC_LETTERS {
            for c in IUPAC_LETTERS {
                match expect_amino(&[*a, *b, *c]) {
                    ExpectAmino::Exactly(_) => exact += 1,
                    ExpectAmino::Ambiguous => ambiguous += 1,
                    ExpectAmino::GapUnconstrained => gap += 1,
                }
            }
        }
    }
    (exact, ambiguous, gap)
}
