//! The only source of randomness in the simulator: splitmix64 for seed derivation and
//! xoshiro256** for draws. No `rand` crate, no clock, no address-dependent choice.

#[inline]
pub fn splitmix64(x: u64) -> u64 {
    let mut z = x.wrapping_add(0x9E37_79B9_7F4A_7C15);
    z = (z ^ (z >> 30)).wrapping_mul(0xBF58_476D_1CE4_E5B9);
    z = (z ^ (z >> 27)).wrapping_mul(0x94D0_49BB_1331_11EB);
    z ^ (z >> 31)
}

/// Engine tags mixed into run seeds so engines never share a stream.
pub const TAG_C14N: u64 = 0xC14A_0000_0000_0001;
pub const TAG_C14M: u64 = 0xC14B_0000_0000_0002;
pub const TAG_C15: u64 = 0xC150_0000_0000_0003;
pub const TAG_C15M: u64 = 0xC15B_0000_0000_0006;

pub fn run_seed(verif_seed: u64, tag: u64, index: u64) -> u64 {
    splitmix64(splitmix64(verif_seed ^ tag) ^ index.wrapping_mul(0xD6E8_FEB8_6659_FD93))
}

#[derive(Clone, Debug)]
pub struct Rng {
    s: [u64; 4],
    pub draws: u64,
}

impl Rng {
    pub fn new(seed: u64) -> Self {
        let mut x = seed;
        let mut s = [0u64; 4];
        for w in &mut s {
            x = splitmix64(x);
            *w = x;
        }
        if s == [0; 4] {
            s[0] = 1;
        }
        Rng { s, draws: 0 }
    }

    pub fn next_u64(&mut self) -> u64 {
        self.draws += 1;
        let result = self.s[1].wrapping_mul(5).rotate_left(7).wrapping_mul(9);
        let t = self.s[1] << 17;
        self.s[2] ^= self.s[0];
        self.s[3] ^= self.s[1];
        self.s[1] ^= self.s[2];
        self.s[0] ^= self.s[3];
        self.s[2] ^= t;
        self.s[3] = self.s[3].rotate_left(45);
        result
    }

    /// Uniform in 0..n (n > 0); multiply-shift, bias negligible for the n used here.
    pub fn below(&mut self, n: usize) -> usize {
        debug_assert!(n > 0);
        (((self.next_u64() >> 11) as u128 * n as u128) >> 53) as usize
    }

    pub fn range(&mut self, lo: usize, hi_incl: usize) -> usize {
        lo + self.below(hi_incl - lo + 1)
    }

    pub fn chance(&mut self, num: usize, den: usize) -> bool {
        self.below(den) < num
    }

    pub fn pick<'a, T>(&mut self, xs: &'a [T]) -> &'a T {
        &xs[self.below(xs.len())]
    }

    pub fn shuffle<T>(&mut self, xs: &mut [T]) {
        for i in (1..xs.len()).rev() {
            let j = self.below(i + 1);
            xs.swap(i, j);
        }
    }
}

/// FNV-1a 64 folded over the event log: the run digest.
#[derive(Clone, Copy, Debug)]
pub struct Digest(pub u64);

impl Default for Digest {
    fn default() -> Self {
        Digest(0xcbf2_9ce4_8422_2325)
    }
}

impl Digest {
    pub fn feed(&mut self, bytes: &[u8]) {
        for b in bytes {
            self.0 ^= u64::from(*b);
            self.0 = self.0.wrapping_mul(0x0000_0100_0000_01B3);
        }
        self.0 ^= 0xff;
        self.0 = self.0.wrapping_mul(0x0000_0100_0000_01B3);
    }
    pub fn feed_u64(&mut self, x: u64) {
        self.feed(&x.to_le_bytes());
    }
}
