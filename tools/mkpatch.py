#!/usr/bin/env python3
"""mkpatch.py <name> <file> <<< JSON list of [old, new] replacements — produce /verif/sensitivity/<name>.diff
from a scratch worktree (/tmp/wt-sens), then restore the worktree."""
import json, subprocess, sys
name = sys.argv[1]
edits = json.load(sys.stdin)
WT = "/tmp/wt-sens"
for e in edits:
    path = f"{WT}/{e['file']}"
    s = open(path).read()
    assert s.count(e['old']) == 1, (e['file'], e['old'][:60], s.count(e['old']))
    s = s.replace(e['old'], e['new'])
    open(path, 'w').write(s)
d = subprocess.run(["git", "-C", WT, "diff"], capture_output=True, text=True).stdout
open(f"/verif/sensitivity/{name}.diff", "w").write(d)
subprocess.run(["git", "-C", WT, "checkout", "--", "."], check=True)
print(name, len(d.splitlines()), "lines")
