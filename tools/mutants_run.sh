#!/bin/sh
# mutants_run.sh <dir>: run the quick checks (native engines only) on every mutant in <dir> that survived
# the existing test suites; one line per mutant: id, file, operator, C14 exit, C15 exit.
dir="$1"; cd /verif || exit 2
grep survives "$dir/index.tsv" | while IFS="$(printf '\t')" read -r id file line op status; do
  c14=-; c15=-
  case "$file" in
    *translation/standard.rs|*codec/iupac.rs) props="C14";;
    *translation.rs) props="C15";;
    *) props="C14 C15";;
  esac
  for p in $props; do
    out=$(VERIF_C14_MIRI_RUNS=0 VERIF_C14_SHUTTLE_RUNS=0 VERIF_C15_MIRI_RUNS=0 VERIF_C15_SHUTTLE_RUNS=0 VERIF_C14_NATIVE_RUNS=200 VERIF_C15_RUNS=12000 tools/try_patch.sh "$dir/$id.diff" ./check "$p" quick 2>&1)
    rc=$(echo "$out" | sed -n 's/^try_patch: exit=\([0-9]*\).*/\1/p')
    if [ "$p" = C14 ]; then c14=$rc; else c15=$rc; fi
  done
  echo "$id	$file:$line	$op	C14=$c14	C15=$c15"
done
