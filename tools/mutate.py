#!/usr/bin/env python3
"""mutate.py: mechanical single-edit mutants of the code behind C14 / C15, in a scratch worktree
(/tmp/wt-mut). Stage 1 keeps the mutants that still compile and pass BOTH existing test suites;
stage 2 (tools/mutants_run.sh) runs the quick checks on the survivors. Output: out_dir/mNNN.diff +
index.tsv (id, file, line, operator, status)."""
import os, re, subprocess, sys, itertools

WT = "/tmp/wt-mut"
OUT = sys.argv[1] if len(sys.argv) > 1 else "/verif/sim/target/tmp/mutants"
FILES = {
    "bio-seq/src/translation/standard.rs": (12, 122),
    "bio-seq/src/translation.rs": (150, 200),
    "bio-seq/src/codec/iupac.rs": (118, 150),
    "bio-seq/src/seq/slice.rs": (52, 135),
    "bio-seq/src/seq/slice.rs#ops": (166, 195),
    "bio-seq/src/seq.rs": (56, 64),
    "bio-seq/src/seq.rs#borrow": (336, 360),
    "bio-seq/src/seq/index.rs": (8, 79),
}
OPS = [
    ("eq->ne", re.compile(r"(?<![=!<>])==(?!=)"), "!="),
    ("ne->eq", re.compile(r"!=(?!=)"), "=="),
    ("lt->le", re.compile(r"(?<![<-])<(?![=<])(?=\s*[a-zA-Z0-9_(])"), "<="),
    ("le->lt", re.compile(r"<=(?!=)"), "<"),
    ("ge->gt", re.compile(r">=(?!=)"), ">"),
    ("plus1->0", re.compile(r"\s\+\s1\b"), " + 0"),
    ("minus1->0", re.compile(r"\s-\s1\b"), " - 0"),
    ("and->or", re.compile(r"&="), "|="),
    ("or->and", re.compile(r"\|="), "&="),
    ("3->2", re.compile(r"(?<![0-9a-zA-Z_.])3(?![0-9a-zA-Z_.])"), "2"),
    ("3->4", re.compile(r"(?<![0-9a-zA-Z_.])3(?![0-9a-zA-Z_.])"), "4"),
    ("None->Some", re.compile(r"insert\(\*amino, None\)"), "insert(*amino, Some(iupac_set.clone()))"),
    ("None->SomeC", re.compile(r"inverse_table\.insert\(\*amino, None\)"), "inverse_table.insert(*amino, Some(codon.clone()))"),
    ("contains_key-neg", re.compile(r"if (\w+)\.contains_key\("), r"if !\1.contains_key("),
    ("if-not", re.compile(r"if (codon|rhs|self|N|i)\b"), r"if !(\1"),  # filtered below (needs paren fix)
    ("start->end", re.compile(r"range\.start\b"), "range.end"),
    ("mul->add", re.compile(r"\*\s*A::BITS"), "+ A::BITS"),
    ("as_ref-swap", re.compile(r"self\.as_ref\(\) & rhs == rhs"), "self.as_ref() & rhs == self.as_ref()"),
    ("swap-and", re.compile(r"self & rhs == rhs"), "self & rhs == self"),
    ("Ok->Err-amb", re.compile(r"return Ok\(\*amino\)"), "return Err(TranslationError::AmbiguousTranslation(codon.into()))"),
    ("hash-drop-len", re.compile(r"self\.len\(\)\.hash\(state\);"), ""),
    ("InvalidAmino->Ambiguous", re.compile(r"Err\(TranslationError::InvalidAmino\(amino\)\)"), "Err(TranslationError::AmbiguousCodon(amino))"),
    ("Ambiguous->InvalidAmino", re.compile(r"Err\(TranslationError::AmbiguousCodon\(amino\)\)"), "Err(TranslationError::InvalidAmino(amino))"),
    ("InvalidCodon->AmbT", re.compile(r"TranslationError::InvalidCodon\(codon\.into\(\)\)"), "TranslationError::AmbiguousTranslation(codon.into())"),
    ("AmbT->InvalidCodon", re.compile(r"Err\(TranslationError::AmbiguousTranslation\(codon\.into\(\)\)\)"), "Err(TranslationError::InvalidCodon(codon.into()))"),
]
# table-row mutants: change one IUPAC letter or the amino of a row
ROW = re.compile(r'\(iupac!\("([A-Z]{3})"\)\.into\(\), Amino::([A-Z])\)')
IUPAC = "ACGTRYSWKMBDHVN"


def sh(cmd, cwd=WT, timeout=900):
    return subprocess.run(cmd, cwd=cwd, shell=True, stdout=subprocess.PIPE, stderr=subprocess.STDOUT, text=True, timeout=timeout)


def candidates():
    only = os.environ.get("MUT_FILES")
    for key, (lo, hi) in FILES.items():
        if only and not any(key.startswith(o) for o in only.split(",")):
            continue
        f = key.split("#")[0]
        lines = open(os.path.join(WT, f)).read().split("\n")
        for ln in range(lo - 1, min(hi, len(lines))):
            line = lines[ln]
            if line.strip().startswith("//"):
                continue
            for name, rx, rep in OPS:
                if name == "if-not":
                    continue
                for m in rx.finditer(line):
                    new = line[:m.start()] + m.expand(rep) + line[m.end():]
                    if new != line:
                        yield f, ln, name, new
            m = ROW.search(line)
            if m and f.endswith("standard.rs"):
                pat, am = m.group(1), m.group(2)
                # one letter of the pattern widened / narrowed / shifted, and the amino changed
                for pos in range(3):
                    for alt in {IUPAC[(IUPAC.index(pat[pos]) + 1) % 15], "N", IUPAC[(IUPAC.index(pat[pos]) + 7) % 15]}:
                        if alt != pat[pos]:
                            p2 = pat[:pos] + alt + pat[pos + 1:]
                            yield f, ln, f"row {pat}->{p2}", line.replace(f'"{pat}"', f'"{p2}"')
                alt_am = {"A": "G", "G": "A"}.get(am, "A")
                yield f, ln, f"row {pat} amino {am}->{alt_am}", line.replace(f"Amino::{am})", f"Amino::{alt_am})")


def main():
    os.makedirs(OUT, exist_ok=True)
    sh("git checkout -q -- .")
    seen = set()
    idx = open(os.path.join(OUT, "index.tsv"), "w")
    n = 0
    limit = int(os.environ.get("MUT_LIMIT", "400"))
    for f, ln, name, new in candidates():
        key = (f, ln, new)
        if key in seen:
            continue
        seen.add(key)
        if n >= limit:
            break
        path = os.path.join(WT, f)
        orig = open(path).read()
        lines = orig.split("\n")
        lines[ln] = new
        open(path, "w").write("\n".join(lines))
        n += 1
        mid = f"m{n:03d}"
        r = sh("cargo test -p bio-seq --features translation --offline -q 2>&1 | tail -5", timeout=1200)
        ok = "test result: ok" in r.stdout and "FAILED" not in r.stdout and "error" not in r.stdout.lower().split("test result")[0]
        status = "killed-by-existing-tests-or-no-compile"
        if ok:
            r2 = sh("cargo test --workspace --offline -q 2>&1 | tail -5", timeout=1200)
            if "test result: ok" in r2.stdout and "FAILED" not in r2.stdout:
                status = "survives-existing-tests"
                d = sh("git diff -- bio-seq bio-seq-derive").stdout
                open(os.path.join(OUT, f"{mid}.diff"), "w").write(d)
        idx.write(f"{mid}\t{f}\t{ln + 1}\t{name}\t{status}\n")
        idx.flush()
        open(path, "w").write(orig)
    sh("git checkout -q -- .")
    print("done", n)


if __name__ == "__main__":
    main()
