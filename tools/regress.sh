#!/bin/sh
# regress.sh: run every sensitivity patch and every seeded change through the quick checks and
# compare with the expected outcome (names containing "silent" must pass, all others must be caught).
# Output: one line per patch. Never leaves /repo modified; evidence/ is preserved by try_patch.sh.
cd /verif || exit 2
fail=0
run() { # prop patch expect miri
  prop="$1"; p="$2"; expect="$3"; miri="$4"
  out=$(VERIF_C15_MIRI_RUNS=0 VERIF_C14_MIRI_RUNS=$miri tools/try_patch.sh "$p" ./check "$prop" quick 2>&1)
  rc=$(echo "$out" | sed -n 's/^try_patch: exit=\([0-9]*\).*/\1/p')
  v=$(echo "$out" | grep -E "^violation:" | head -1 | cut -c1-200)
  if [ "$rc" = "$expect" ]; then st=OK; else st=UNEXPECTED; fail=1; fi
  echo "$st prop=$prop patch=$p exit=$rc expected=$expect $v"
}
for p in sensitivity/s14-*.diff; do
  case "$p" in
    *silent*|*contains-nolen*) run C14 "$p" 0 0;;
    *miri*) run C14 "$p" 1 16;;
    *) run C14 "$p" 1 0;;
  esac
done
for p in sensitivity/s15-*.diff; do
  case "$p" in *silent*) run C15 "$p" 0 0;; *) run C15 "$p" 1 0;; esac
done
for p in benign/b14*-r*.diff; do run C14 "$p" 0 0; done
for p in benign/b15*-r*.diff; do run C15 "$p" 0 0; done
for d in seeded/*/; do
  m="$d/meta.json"; prop=$(python3 -c "import json,sys; print(json.load(open('$m'))['property'])")
  miri=$(python3 -c "import json,sys; print(json.load(open('$m')).get('needs_miri_runs',0))")
  exp=$(python3 -c "import json,sys; print(json.load(open('$m')).get('expected_exit',1))")
  run "$prop" "$d/patch.diff" "$exp" "$miri"
done
exit $fail
