#!/bin/sh
# sensitivity.sh <prop> <patch...>: run the quick check (native engines only unless MIRI=n given) on each patch
prop="$1"; shift
for p in "$@"; do
  echo "=== $p"
  VERIF_C14_MIRI_RUNS=${MIRI:-0} /verif/tools/try_patch.sh "$p" ./check "$prop" quick 2>&1 | grep -E "^(violation|VIOLATION|KNOWN|HARNESS|try_patch|C1[45] quick)" 
done
