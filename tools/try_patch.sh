#!/bin/sh
# try_patch.sh <patch> <command...>: apply a patch to /repo, run the command in /verif, always undo.
# Used only for sensitivity / seeded experiments; nothing is ever committed to /repo by this.
p="$(readlink -f "$1")"; shift
cd /verif || exit 2
if [ -n "$(git -C /repo status --porcelain --untracked-files=no)" ]; then echo "try_patch: /repo is dirty"; exit 2; fi
git -C /repo apply "$p" || { echo "try_patch: patch does not apply"; exit 2; }
# evidence written while /repo is patched must never replace the evidence of the unchanged tree
bk="$(mktemp -d /verif/sim/target/tmp/evidence-backup.XXXXXX)"; cp -a /verif/evidence/. "$bk"/ 2>/dev/null
restore() { git -C /repo checkout -- . ; rm -rf /verif/evidence; mkdir -p /verif/evidence; cp -a "$bk"/. /verif/evidence/; rm -rf "$bk"; }
trap 'restore; exit 2' INT TERM
"$@"; rc=$?
restore
echo "try_patch: exit=$rc (repo restored)"
exit $rc
