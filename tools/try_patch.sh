#!/bin/sh
# try_patch.sh <patch> <command...>: apply a patch to /repo, run the command in /verif, always undo.
# Used only for sensitivity / seeded experiments; nothing is ever committed to /repo by this.
p="$(readlink -f "$1")"; shift
cd /verif || exit 2
if [ -n "$(git -C /repo status --porcelain --untracked-files=no)" ]; then echo "try_patch: /repo is dirty"; exit 2; fi
git -C /repo apply "$p" || { echo "try_patch: patch does not apply"; exit 2; }
trap 'git -C /repo checkout -- . ; exit' INT TERM
"$@"; rc=$?
git -C /repo checkout -- .
echo "try_patch: exit=$rc (repo restored)"
exit $rc
