#!/bin/sh
# verify_seed.sh <worktree> : confirm a seeded change independently, inside its scratch worktree.
#  (a) pristine + demo passes  (b) patched: existing suites pass  (c) patched + demo fails
wt="$1"; cd "$wt" || exit 2
# (no git stash: refs/stash is shared by all worktrees of a repository)
git checkout -q -- . ; rm -rf bio-seq/tests
git apply --check _seeded/patch.diff || { echo "PATCH-DOES-NOT-APPLY"; exit 1; }
mkdir -p bio-seq/tests && cp _seeded/demo.rs bio-seq/tests/seeded_demo.rs
if cargo test -p bio-seq --features translation --offline --test seeded_demo >/tmp/vs.$$.log 2>&1; then echo "a) pristine demo: PASS (good)"; else echo "a) pristine demo: FAIL (bad)"; tail -20 /tmp/vs.$$.log; fi
rm -rf bio-seq/tests
git apply _seeded/patch.diff
if cargo test --workspace --offline >/tmp/vs.$$.log 2>&1; then echo "b1) patched workspace tests: PASS (good)"; else echo "b1) patched workspace tests: FAIL (bad)"; grep -E "FAILED|failed|panicked" /tmp/vs.$$.log | head; fi
if cargo test -p bio-seq --features translation --offline >/tmp/vs.$$.log 2>&1; then echo "b2) patched feature tests: PASS (good)"; else echo "b2) patched feature tests: FAIL (bad)"; grep -E "FAILED|failed|panicked" /tmp/vs.$$.log | head; fi
mkdir -p bio-seq/tests && cp _seeded/demo.rs bio-seq/tests/seeded_demo.rs
if cargo test -p bio-seq --features translation --offline --test seeded_demo >/tmp/vs.$$.log 2>&1; then echo "c) patched demo: PASS (bad)"; else echo "c) patched demo: FAIL (good)"; grep -E "panicked|assert" /tmp/vs.$$.log | head -3; fi
rm -rf bio-seq/tests /tmp/vs.$$.log
git checkout -q -- .
